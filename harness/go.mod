module github.com/rs/zerolog/diode/verifh

go 1.21

require (
	github.com/anishathalye/porcupine v1.3.0
	github.com/rs/xid v1.6.0
	github.com/rs/zerolog v0.0.0
)

require (
	github.com/coreos/go-systemd/v22 v22.5.0 // indirect
	github.com/mattn/go-colorable v0.1.13 // indirect
	github.com/mattn/go-isatty v0.0.19 // indirect
	golang.org/x/sys v0.12.0 // indirect
)

replace github.com/rs/zerolog => /repo
