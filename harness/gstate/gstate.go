// Package gstate parses runtime.Stack(all) into goroutine wait states: the stuck-state oracle.
package gstate

import (
	"runtime"
	"strings"
)

type G struct {
	Header string
	State  string // e.g. "running", "runnable", "sync.Cond.Wait", "chan receive", "sleep", "select", "semacquire"
	Text   string
}

func (g G) Has(frame string) bool { return strings.Contains(g.Text, frame) }

// Snapshot returns all goroutines.
func Snapshot() []G {
	buf := make([]byte, 1<<20)
	for {
		n := runtime.Stack(buf, true)
		if n < len(buf) {
			buf = buf[:n]
			break
		}
		buf = make([]byte, 2*len(buf))
	}
	var out []G
	for _, blk := range strings.Split(string(buf), "\n\n") {
		blk = strings.TrimSpace(blk)
		if !strings.HasPrefix(blk, "goroutine ") {
			continue
		}
		nl := strings.IndexByte(blk, '\n')
		hdr := blk
		if nl > 0 {
			hdr = blk[:nl]
		}
		st := ""
		if i := strings.IndexByte(hdr, '['); i >= 0 {
			if j := strings.IndexByte(hdr[i:], ']'); j > 0 {
				st = hdr[i+1 : i+j]
			}
		}
		// "chan receive, 2 minutes" -> "chan receive"; "sync.Cond.Wait, locked to thread"
		if k := strings.IndexByte(st, ','); k >= 0 {
			st = st[:k]
		}
		out = append(out, G{Header: hdr, State: st, Text: blk})
	}
	return out
}

// Parked reports whether a goroutine in this state can only become runnable through another
// goroutine's action (never through the passage of time).
func Parked(state string) bool {
	switch state {
	case "sync.Cond.Wait", "chan receive", "chan send", "select", "sync.Mutex.Lock", "semacquire", "sync.WaitGroup.Wait", "sync.RWMutex.Lock", "sync.RWMutex.RLock",
		"chan receive (nil chan)", "chan send (nil chan)", "select (no cases)":
		return true
	}
	return false
}
