// Package cborv is an independent generic RFC 8949 well-formedness parser. It shares no code with
// zerolog's internal/cbor.
package cborv

import (
	"fmt"
)

type Node struct {
	Major byte
	Info  byte
	Arg   uint64 // argument (value / length / tag number / simple value)
	Indef bool
	Bytes []byte  // major 2/3 (concatenated chunks if indefinite)
	Items []*Node // major 4: elements; major 5: key,value,key,value...
	Child *Node   // major 6
	Float bool    // major 7 float
	Bits  uint64  // float bits (16/32/64 per Info 25/26/27)
	Raw   []byte
}

type Error struct {
	Off int
	Msg string
}

func (e *Error) Error() string { return fmt.Sprintf("cbor: offset %d: %s", e.Off, e.Msg) }

type parser struct {
	b     []byte
	i     int
	depth int
}

const maxDepth = 1000

// Parse parses exactly one data item spanning all of b.
func Parse(b []byte) (*Node, error) {
	p := &parser{b: b}
	n, err := p.item(false)
	if err != nil {
		return nil, err
	}
	if p.i != len(b) {
		return nil, &Error{p.i, fmt.Sprintf("%d trailing bytes after the data item", len(b)-p.i)}
	}
	return n, nil
}

var errBreak = &Error{0, "break"}

func (p *parser) fail(msg string) error { return &Error{p.i, msg} }

func (p *parser) head() (major, info byte, arg uint64, err error) {
	if p.i >= len(p.b) {
		return 0, 0, 0, p.fail("unexpected end of input")
	}
	ib := p.b[p.i]
	p.i++
	major, info = ib>>5, ib&31
	switch {
	case info < 24:
		arg = uint64(info)
	case info == 24:
		if p.i+1 > len(p.b) {
			return 0, 0, 0, p.fail("truncated 1-byte argument")
		}
		arg = uint64(p.b[p.i])
		p.i++
	case info == 25:
		if p.i+2 > len(p.b) {
			return 0, 0, 0, p.fail("truncated 2-byte argument")
		}
		arg = uint64(p.b[p.i])<<8 | uint64(p.b[p.i+1])
		p.i += 2
	case info == 26:
		if p.i+4 > len(p.b) {
			return 0, 0, 0, p.fail("truncated 4-byte argument")
		}
		for k := 0; k < 4; k++ {
			arg = arg<<8 | uint64(p.b[p.i+k])
		}
		p.i += 4
	case info == 27:
		if p.i+8 > len(p.b) {
			return 0, 0, 0, p.fail("truncated 8-byte argument")
		}
		for k := 0; k < 8; k++ {
			arg = arg<<8 | uint64(p.b[p.i+k])
		}
		p.i += 8
	case info < 31:
		return 0, 0, 0, p.fail(fmt.Sprintf("reserved additional information %d", info))
	}
	return
}

// item parses one item; if allowBreak and the next byte is 0xff it returns errBreak.
func (p *parser) item(allowBreak bool) (*Node, error) {
	p.depth++
	defer func() { p.depth-- }()
	if p.depth > maxDepth {
		return nil, p.fail("nesting too deep")
	}
	start := p.i
	major, info, arg, err := p.head()
	if err != nil {
		return nil, err
	}
	n := &Node{Major: major, Info: info, Arg: arg}
	switch major {
	case 0, 1:
		if info == 31 {
			return nil, &Error{start, "additional information 31 on an integer"}
		}
	case 2, 3:
		if info == 31 {
			n.Indef = true
			for {
				if p.i < len(p.b) && p.b[p.i] == 0xff {
					p.i++
					break
				}
				cs := p.i
				cm, ci, ca, err := p.head()
				if err != nil {
					return nil, err
				}
				if cm != major || ci == 31 {
					return nil, &Error{cs, "indefinite-length string chunk of wrong type"}
				}
				if ca > uint64(len(p.b)-p.i) {
					return nil, &Error{cs, "string chunk length exceeds input"}
				}
				n.Bytes = append(n.Bytes, p.b[p.i:p.i+int(ca)]...)
				p.i += int(ca)
			}
		} else {
			if arg > uint64(len(p.b)-p.i) {
				return nil, &Error{start, fmt.Sprintf("string length %d exceeds remaining input %d", arg, len(p.b)-p.i)}
			}
			n.Bytes = p.b[p.i : p.i+int(arg)]
			p.i += int(arg)
		}
	case 4, 5:
		mult := uint64(1)
		if major == 5 {
			mult = 2
		}
		if info == 31 {
			n.Indef = true
			for {
				c, err := p.item(true)
				if err == errBreak {
					break
				}
				if err != nil {
					return nil, err
				}
				n.Items = append(n.Items, c)
			}
			if major == 5 && len(n.Items)%2 != 0 {
				return nil, &Error{start, "indefinite-length map with an odd number of items"}
			}
		} else {
			if arg > uint64(len(p.b)) {
				return nil, &Error{start, fmt.Sprintf("container length %d exceeds input", arg)}
			}
			for k := uint64(0); k < arg*mult; k++ {
				c, err := p.item(false)
				if err != nil {
					return nil, err
				}
				n.Items = append(n.Items, c)
			}
		}
	case 6:
		if info == 31 {
			return nil, &Error{start, "additional information 31 on a tag"}
		}
		c, err := p.item(false)
		if err != nil {
			return nil, err
		}
		n.Child = c
	case 7:
		switch {
		case info == 31:
			if allowBreak {
				return nil, errBreak
			}
			return nil, &Error{start, "dangling break"}
		case info == 24:
			if arg < 32 {
				return nil, &Error{start, "two-byte simple value below 32"}
			}
		case info >= 25 && info <= 27:
			n.Float = true
			n.Bits = arg
		}
	}
	n.Raw = p.b[start:p.i]
	return n, nil
}

func (n *Node) String() string {
	if n == nil {
		return "<nil>"
	}
	r := n.Raw
	if len(r) > 48 {
		return fmt.Sprintf("%x...(%d bytes)", r[:40], len(r))
	}
	return fmt.Sprintf("%x", r)
}
