// Package rng is a small self-contained PRNG (splitmix64 seeding xoshiro256**), so that case lists
// are a pure function of VERIF_SEED and do not depend on math/rand versions.
package rng

type R struct{ s [4]uint64 }

func splitmix(x *uint64) uint64 {
	*x += 0x9e3779b97f4a7c15
	z := *x
	z = (z ^ (z >> 30)) * 0xbf58476d1ce4e5b9
	z = (z ^ (z >> 27)) * 0x94d049bb133111eb
	return z ^ (z >> 31)
}

// New returns a generator determined by the given words (seed, stream ids...).
func New(words ...uint64) *R {
	var x uint64 = 0x243f6a8885a308d3
	for _, w := range words {
		x ^= w
		_ = splitmix(&x)
		x = x*0x100000001b3 + w
	}
	r := &R{}
	for i := range r.s {
		r.s[i] = splitmix(&x)
	}
	return r
}

func rotl(x uint64, k uint) uint64 { return (x << k) | (x >> (64 - k)) }

func (r *R) U64() uint64 {
	s := &r.s
	res := rotl(s[1]*5, 7) * 9
	t := s[1] << 17
	s[2] ^= s[0]
	s[3] ^= s[1]
	s[1] ^= s[2]
	s[0] ^= s[3]
	s[2] ^= t
	s[3] = rotl(s[3], 45)
	return res
}

// Intn returns a value in [0,n). n must be > 0.
func (r *R) Intn(n int) int {
	if n <= 0 {
		panic("rng.Intn: n<=0")
	}
	return int(r.U64() % uint64(n))
}

func (r *R) Bool() bool { return r.U64()&1 == 1 }

// Chance returns true with probability num/den.
func (r *R) Chance(num, den int) bool { return r.Intn(den) < num }

func (r *R) Float() float64 { return float64(r.U64()>>11) / (1 << 53) }

// State exposes the internal state (for replay files).
func (r *R) State() [4]uint64 { return r.s }

// Hash64 is FNV-1a over bytes, used for distinct counting.
func Hash64(b []byte) uint64 {
	h := uint64(0xcbf29ce484222325)
	for _, c := range b {
		h ^= uint64(c)
		h *= 0x100000001b3
	}
	return h
}

func HashStr(s string) uint64 {
	h := uint64(0xcbf29ce484222325)
	for i := 0; i < len(s); i++ {
		h ^= uint64(s[i])
		h *= 0x100000001b3
	}
	return h
}
