//go:build tools

package verifh

import _ "github.com/anishathalye/porcupine"
