// vh is the single harness binary; each sub-command is one check child.
package main

import (
	"fmt"
	"os"
)

var commands = map[string]func(args []string) int{}

func main() {
	if len(os.Args) < 2 {
		fmt.Fprintln(os.Stderr, "usage: vh <command> [flags]")
		os.Exit(2)
	}
	cmd, ok := commands[os.Args[1]]
	if !ok {
		fmt.Fprintln(os.Stderr, "vh: unknown command", os.Args[1])
		os.Exit(2)
	}
	os.Exit(cmd(os.Args[2:]))
}
