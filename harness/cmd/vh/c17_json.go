//go:build !binary_log

package main

func c17extra(s *c17state, in []byte) {}

func c17cut(s *c17state, ev []byte, k int) {}

func c17consumers(s *c17state, in []byte) {}
