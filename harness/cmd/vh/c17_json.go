//go:build !binary_log

package main

func c17extra(s *c17state, in []byte) {}
