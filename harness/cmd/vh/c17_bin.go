//go:build binary_log

package main

import (
	"fmt"
	"io"

	"github.com/rs/zerolog"
	"github.com/rs/zerolog/journald"
)

var c17console = zerolog.ConsoleWriter{Out: io.Discard, NoColor: true}
var c17journald = journald.NewJournalDWriter()

// In the binary build ConsoleWriter and the journald writer decode their input first.
func c17extra(s *c17state, in []byte) {
	s.guard("ConsoleWriter.Write", in, false, func() error { c17console.Write(in); return nil })
	if s.calls%8 == 0 {
		s.guard("journald.Write", in, false, func() error { c17journald.Write(in); return nil })
	}
}

// c17cut: a partial event handed to ConsoleWriter (which decodes it first) must be reported as an error, like
// everywhere else; k is a cut point strictly inside the single event ev.
func c17cut(s *c17state, ev []byte, k int) {
	var werr error
	s.guard("ConsoleWriter.Write(partial event)", ev[:k], false, func() error { _, werr = c17console.Write(ev[:k]); return nil })
	if werr == nil {
		s.out.Violate("cut-partial-no-error:ConsoleWriter", fmt.Sprintf("the first %d of the %d bytes of one event were handed to ConsoleWriter.Write: no error was returned", k, len(ev)), s.rep())
	}
	s.out.Count("console_partial_event_writes", 1)
}

// c17consumers hands one input to every consumer that decodes binary events (always, not a sample).
func c17consumers(s *c17state, in []byte) {
	s.guard("ConsoleWriter.Write", in, false, func() error { c17console.Write(in); return nil })
	s.guard("journald.Write", in, false, func() error { c17journald.Write(in); return nil })
}
