//go:build binary_log

package main

import (
	"io"

	"github.com/rs/zerolog"
	"github.com/rs/zerolog/journald"
)

var c17console = zerolog.ConsoleWriter{Out: io.Discard, NoColor: true}
var c17journald = journald.NewJournalDWriter()

// In the binary build ConsoleWriter and the journald writer decode their input first.
func c17extra(s *c17state, in []byte) {
	s.guard("ConsoleWriter.Write", in, false, func() error { c17console.Write(in); return nil })
	if s.calls%8 == 0 {
		s.guard("journald.Write", in, false, func() error { c17journald.Write(in); return nil })
	}
}
