package main

import (
	"errors"
	"fmt"
	"math"
	"runtime"
	"runtime/debug"
	"strings"
	"testing"
	"time"
	"unicode/utf8"

	"github.com/rs/zerolog"
	"github.com/rs/zerolog/diode/verifh/evid"
	"github.com/rs/zerolog/diode/verifh/rng"
)

func init() { commands["c07"] = c07 }

type discardCount struct {
	n    int
	last int
}

func (d *discardCount) Write(p []byte) (int, error) { d.n++; d.last = len(p); return len(p), nil }

type pObj struct {
	a string
	b int
}

func (o *pObj) MarshalZerologObject(e *zerolog.Event) { e.Str("a", o.a).Int("b", o.b) }

func staticFunc(e *zerolog.Event) { e.Str("fn", "v").Bool("ok", true) }

type step struct {
	name string
	size int
	f    func(e *zerolog.Event) *zerolog.Event
}

func shortStr(r *rng.R) string {
	alpha := []string{"a", "b", "z", " ", "\"", "\\", "\n", "\x01", "é", "\xff", "😀", "<"}
	n := r.Intn(10)
	if r.Chance(1, 5) {
		n = 33 + r.Intn(60) // beyond the 32-byte stack buffer the compiler uses for small string conversions
	}
	var sb strings.Builder
	for i := 0; i < n; i++ {
		if n > 12 && !r.Chance(1, 8) {
			sb.WriteByte(byte('a' + r.Intn(26)))
			continue
		}
		sb.WriteString(alpha[r.Intn(len(alpha))])
	}
	return sb.String()
}

// allocFreeSteps is the documented allocation-free method set, each with freshly generated arguments
// that are built here, outside the measured closure.
var allocFreeNames = []string{"Str", "Strs", "Bytes", "Hex", "Bool", "Bools", "Int", "Ints", "Int8", "Ints8", "Int16", "Ints16", "Int32", "Ints32", "Int64", "Ints64",
	"Uint", "Uints", "Uint8", "Uints8", "Uint16", "Uints16", "Uint32", "Uints32", "Uint64", "Uints64", "Float32", "Floats32", "Float64", "Floats64",
	"Time", "Times", "Dur", "Durs", "TimeDiff", "Timestamp", "Err", "AnErr", "Dict", "Array", "Array+Dict", "Object", "RawJSON", "Type", "Type/value", "Func",
	// the same methods with arguments that live in the CALLER's frame (slice literals, slices of local arrays, a
	// short string conversion, a struct boxed for Type): a field method whose parameter starts to escape makes
	// the caller allocate although the method itself does not (added after seeded change c07-agent3)
	"Strs/stack", "Bytes/stack", "Hex/stack", "Bools/stack", "Ints/stack", "Ints8/stack", "Ints16/stack", "Ints32/stack", "Ints64/stack",
	"Uints/stack", "Uints8/stack", "Uints16/stack", "Uints32/stack", "Uints64/stack", "Floats32/stack", "Floats64/stack", "Times/stack", "Durs/stack",
	"Str/stack", "RawJSON/stack", "Type/stack", "Dict/stack", "Array/stack",
	// always present: values beyond the 32-byte stack buffer of small string conversions that need escaping
	"Str/long", "Bytes/long", "Strs/long", "Err/long",
	// containers without members
	"Array/empty", "Dict/empty", "Array/empty-in-dict"}

func mkStep(name string, r *rng.R) step {
	k := "k" + string(rune('a'+r.Intn(26)))
	i64 := int64(r.U64())
	if r.Bool() {
		i64 = int64(r.Intn(1000)) - 500
	}
	u64 := r.U64()
	f64 := (r.Float() - 0.5) * 1e6
	if r.Chance(1, 4) {
		f64 = []float64{0, 1e-7, 1e21, 1e22, -1.5e-9, 3, math.NaN(), math.Inf(1), math.Inf(-1), math.MaxFloat64, 5e-324}[r.Intn(11)]
	}
	t1 := time.Unix(int64(r.Intn(2000000000)), int64(r.Intn(1000000000)))
	switch r.Intn(6) {
	case 0:
		t1 = t1.UTC()
	case 1:
		t1 = t1.In(zone0530)
	case 2:
		t1 = time.Unix(-int64(r.Intn(2000000000)), 0).UTC() // before 1970
	}
	t2 := t1.Add(-time.Duration(r.Intn(1000000000)))
	d := time.Duration(r.Intn(1000000000))
	if r.Chance(1, 5) {
		d = -d
	}
	s := shortStr(r)
	s2 := shortStr(r)
	b := []byte(shortStr(r))
	switch name {
	case "Str":
		return step{name, 12 + encLen(s), func(e *zerolog.Event) *zerolog.Event { return e.Str(k, s) }}
	case "Strs":
		v := []string{s, s2}
		if r.Chance(1, 6) {
			v = [][]string{nil, {}}[r.Intn(2)]
		}
		return step{name, 20 + encLen(s) + encLen(s2), func(e *zerolog.Event) *zerolog.Event { return e.Strs(k, v) }}
	case "Bytes":
		if r.Chance(1, 8) {
			b = nil
		}
		if len(b) > 32 && needsEscape7(b) {
			name = "Bytes" // counted below
			longEscapedBytes++
		}
		return step{name, 12 + encLen(string(b)), func(e *zerolog.Event) *zerolog.Event { return e.Bytes(k, b) }}
	case "Hex":
		return step{name, 12 + len(b)*2, func(e *zerolog.Event) *zerolog.Event { return e.Hex(k, b) }}
	case "Bool":
		v := r.Bool()
		return step{name, 12, func(e *zerolog.Event) *zerolog.Event { return e.Bool(k, v) }}
	case "Bools":
		v := []bool{true, false, r.Bool()}
		return step{name, 30, func(e *zerolog.Event) *zerolog.Event { return e.Bools(k, v) }}
	case "Int":
		v := int(i64)
		return step{name, 28, func(e *zerolog.Event) *zerolog.Event { return e.Int(k, v) }}
	case "Ints":
		v := []int{int(i64), 0, -1}
		if r.Chance(1, 6) {
			v = [][]int{nil, {}, {1, 2, 3, 4, 5, 6, 7, 8, 9, 10}}[r.Intn(3)]
		}
		return step{name, 40, func(e *zerolog.Event) *zerolog.Event { return e.Ints(k, v) }}
	case "Int8":
		v := int8(i64)
		return step{name, 12, func(e *zerolog.Event) *zerolog.Event { return e.Int8(k, v) }}
	case "Ints8":
		v := []int8{int8(i64), 1}
		return step{name, 20, func(e *zerolog.Event) *zerolog.Event { return e.Ints8(k, v) }}
	case "Int16":
		v := int16(i64)
		return step{name, 14, func(e *zerolog.Event) *zerolog.Event { return e.Int16(k, v) }}
	case "Ints16":
		v := []int16{int16(i64), 1}
		return step{name, 24, func(e *zerolog.Event) *zerolog.Event { return e.Ints16(k, v) }}
	case "Int32":
		v := int32(i64)
		return step{name, 20, func(e *zerolog.Event) *zerolog.Event { return e.Int32(k, v) }}
	case "Ints32":
		v := []int32{int32(i64), 1}
		return step{name, 30, func(e *zerolog.Event) *zerolog.Event { return e.Ints32(k, v) }}
	case "Int64":
		return step{name, 28, func(e *zerolog.Event) *zerolog.Event { return e.Int64(k, i64) }}
	case "Ints64":
		v := []int64{i64, -i64}
		return step{name, 50, func(e *zerolog.Event) *zerolog.Event { return e.Ints64(k, v) }}
	case "Uint":
		v := uint(u64)
		return step{name, 28, func(e *zerolog.Event) *zerolog.Event { return e.Uint(k, v) }}
	case "Uints":
		v := []uint{uint(u64), 1}
		return step{name, 36, func(e *zerolog.Event) *zerolog.Event { return e.Uints(k, v) }}
	case "Uint8":
		v := uint8(u64)
		return step{name, 12, func(e *zerolog.Event) *zerolog.Event { return e.Uint8(k, v) }}
	case "Uints8":
		v := []uint8{uint8(u64), 1}
		return step{name, 20, func(e *zerolog.Event) *zerolog.Event { return e.Uints8(k, v) }}
	case "Uint16":
		v := uint16(u64)
		return step{name, 14, func(e *zerolog.Event) *zerolog.Event { return e.Uint16(k, v) }}
	case "Uints16":
		v := []uint16{uint16(u64), 1}
		return step{name, 24, func(e *zerolog.Event) *zerolog.Event { return e.Uints16(k, v) }}
	case "Uint32":
		v := uint32(u64)
		return step{name, 20, func(e *zerolog.Event) *zerolog.Event { return e.Uint32(k, v) }}
	case "Uints32":
		v := []uint32{uint32(u64), 1}
		return step{name, 30, func(e *zerolog.Event) *zerolog.Event { return e.Uints32(k, v) }}
	case "Uint64":
		return step{name, 28, func(e *zerolog.Event) *zerolog.Event { return e.Uint64(k, u64) }}
	case "Uints64":
		v := []uint64{u64, 1}
		return step{name, 36, func(e *zerolog.Event) *zerolog.Event { return e.Uints64(k, v) }}
	case "Float32":
		v := float32(f64)
		return step{name, 30, func(e *zerolog.Event) *zerolog.Event { return e.Float32(k, v) }}
	case "Floats32":
		v := []float32{float32(f64), 1.5}
		return step{name, 40, func(e *zerolog.Event) *zerolog.Event { return e.Floats32(k, v) }}
	case "Float64":
		return step{name, 36, func(e *zerolog.Event) *zerolog.Event { return e.Float64(k, f64) }}
	case "Floats64":
		v := []float64{f64, 1.5}
		return step{name, 50, func(e *zerolog.Event) *zerolog.Event { return e.Floats64(k, v) }}
	case "Time":
		return step{name, 48, func(e *zerolog.Event) *zerolog.Event { return e.Time(k, t1) }}
	case "Times":
		v := []time.Time{t1, t2}
		return step{name, 90, func(e *zerolog.Event) *zerolog.Event { return e.Times(k, v) }}
	case "Dur":
		return step{name, 36, func(e *zerolog.Event) *zerolog.Event { return e.Dur(k, d) }}
	case "Durs":
		v := []time.Duration{d, 2 * d}
		return step{name, 60, func(e *zerolog.Event) *zerolog.Event { return e.Durs(k, v) }}
	case "TimeDiff":
		return step{name, 36, func(e *zerolog.Event) *zerolog.Event { return e.TimeDiff(k, t1, t2) }}
	case "Timestamp":
		return step{name, 48, func(e *zerolog.Event) *zerolog.Event { return e.Timestamp() }}
	case "Err":
		err := errors.New(s)
		return step{name, 16 + len(s)*6, func(e *zerolog.Event) *zerolog.Event { return e.Err(err) }}
	case "AnErr":
		err := errors.New(s)
		return step{name, 12 + len(s)*6, func(e *zerolog.Event) *zerolog.Event { return e.AnErr(k, err) }}
	case "Dict":
		return step{name, 40 + len(s)*6, func(e *zerolog.Event) *zerolog.Event {
			return e.Dict(k, zerolog.Dict().Str("s", s).Int64("i", i64))
		}}
	case "Array":
		if r.Chance(1, 6) {
			// an array without elements: zerolog.Arr() with nothing appended, or a marshaler that appends nothing
			if r.Bool() {
				return step{name, 20, func(e *zerolog.Event) *zerolog.Event { return e.Array(k, zerolog.Arr()) }}
			}
			return step{name, 20, func(e *zerolog.Event) *zerolog.Event { return e.Array(k, emptyArr7{}) }}
		}
		if r.Bool() {
			// three elements of random kinds (every Array method of the allocation-free kinds, Object and Dict included)
			o := &pObj{"v", int(i64)}
			sb := []byte(s)
			if len(sb) > 12 {
				sb = sb[:12]
			}
			ss := string(sb)
			kinds := [3]int{r.Intn(22), r.Intn(22), r.Intn(22)} // drawn here: nothing but the calls under test runs in the measured closure
			return step{name, 260, func(e *zerolog.Event) *zerolog.Event {
				a := zerolog.Arr()
				for j := 0; j < 3; j++ {
					a = elem7(a, kinds[j], ss, i64, f64, t1, d, sb, o)
				}
				return e.Array(k, a)
			}}
		}
		return step{name, 40 + len(s)*6, func(e *zerolog.Event) *zerolog.Event {
			return e.Array(k, zerolog.Arr().Str(s).Int64(i64).Bool(true))
		}}
	case "Array+Dict":
		return step{name, 50 + len(s)*6, func(e *zerolog.Event) *zerolog.Event {
			return e.Array(k, zerolog.Arr().Int64(i64).Dict(zerolog.Dict().Str("s", s)))
		}}
	case "Object":
		o := &pObj{s, int(i64)}
		return step{name, 50 + len(s)*6, func(e *zerolog.Event) *zerolog.Event { return e.Object(k, o) }}
	case "RawJSON":
		raw := []byte(`{"a":[1,2,"x"]}`)
		return step{name, 30, func(e *zerolog.Event) *zerolog.Event { return e.RawJSON(k, raw) }}
	case "Type":
		var v interface{} = []interface{}{i64, s, o64{}, &t1, nil}[r.Intn(5)]
		return step{name, 40, func(e *zerolog.Event) *zerolog.Event { return e.Type(k, v) }}
	case "Type/value":
		// the argument is a variable of a non-pointer type, boxed at the call
		sv, st, fl, sl := s, o64{}, float64(i64)*1.5, []int{int(i64)}
		switch r.Intn(4) {
		case 0:
			return step{name, 40, func(e *zerolog.Event) *zerolog.Event { return e.Type(k, sv) }}
		case 1:
			return step{name, 40, func(e *zerolog.Event) *zerolog.Event { return e.Type(k, st) }}
		case 2:
			return step{name, 40, func(e *zerolog.Event) *zerolog.Event { return e.Type(k, fl) }}
		}
		return step{name, 40, func(e *zerolog.Event) *zerolog.Event { return e.Type(k, sl) }}
	case "Func":
		return step{name, 30, func(e *zerolog.Event) *zerolog.Event { return e.Func(staticFunc) }}
	case "Array/empty":
		return step{name, 20, func(e *zerolog.Event) *zerolog.Event { return e.Array(k, zerolog.Arr()) }}
	case "Dict/empty":
		return step{name, 20, func(e *zerolog.Event) *zerolog.Event { return e.Dict(k, zerolog.Dict()) }}
	case "Array/empty-in-dict":
		return step{name, 30, func(e *zerolog.Event) *zerolog.Event {
			return e.Dict(k, zerolog.Dict().Array("a", zerolog.Arr()).Array("b", emptyArr7{}))
		}}
	case "Str/long", "Bytes/long", "Strs/long", "Err/long":
		long := "0123456789012345678901234567890123456789\"\\\n\x01é\xff" + s
		if len(long) > 70 {
			long = long[:70]
		}
		lb := []byte(long)
		lerr := errors.New(long)
		switch name {
		case "Str/long":
			return step{name, 12 + encLen(long), func(e *zerolog.Event) *zerolog.Event { return e.Str(k, long) }}
		case "Bytes/long":
			return step{name, 12 + encLen(long), func(e *zerolog.Event) *zerolog.Event { return e.Bytes(k, lb) }}
		case "Strs/long":
			v := []string{long, "a"}
			return step{name, 24 + encLen(long), func(e *zerolog.Event) *zerolog.Event { return e.Strs(k, v) }}
		}
		return step{name, 16 + encLen(long), func(e *zerolog.Event) *zerolog.Event { return e.AnErr(k, lerr) }}
	case "Strs/stack":
		return step{name, 20 + (len(s)+len(s2))*6, func(e *zerolog.Event) *zerolog.Event { return e.Strs(k, []string{s, s2}) }}
	case "Bytes/stack":
		return step{name, 12 + 16*6, func(e *zerolog.Event) *zerolog.Event {
			var a [16]byte
			a[0], a[5], a[15] = byte(i64), byte(u64), '"'
			return e.Bytes(k, a[:])
		}}
	case "Hex/stack":
		return step{name, 12 + 16*2, func(e *zerolog.Event) *zerolog.Event {
			var a [16]byte
			a[0], a[5], a[15] = byte(i64), byte(u64), 0xff
			return e.Hex(k, a[:])
		}}
	case "Bools/stack":
		v := r.Bool()
		return step{name, 30, func(e *zerolog.Event) *zerolog.Event { return e.Bools(k, []bool{true, v, false}) }}
	case "Ints/stack":
		return step{name, 60, func(e *zerolog.Event) *zerolog.Event { return e.Ints(k, []int{int(i64), 0, -1}) }}
	case "Ints8/stack":
		return step{name, 20, func(e *zerolog.Event) *zerolog.Event { return e.Ints8(k, []int8{int8(i64), 1}) }}
	case "Ints16/stack":
		return step{name, 24, func(e *zerolog.Event) *zerolog.Event { return e.Ints16(k, []int16{int16(i64), 1}) }}
	case "Ints32/stack":
		return step{name, 30, func(e *zerolog.Event) *zerolog.Event { return e.Ints32(k, []int32{int32(i64), 1}) }}
	case "Ints64/stack":
		return step{name, 50, func(e *zerolog.Event) *zerolog.Event { return e.Ints64(k, []int64{i64, -i64}) }}
	case "Uints/stack":
		return step{name, 36, func(e *zerolog.Event) *zerolog.Event { return e.Uints(k, []uint{uint(u64), 1}) }}
	case "Uints8/stack":
		return step{name, 20, func(e *zerolog.Event) *zerolog.Event { return e.Uints8(k, []uint8{uint8(u64), 1}) }}
	case "Uints16/stack":
		return step{name, 24, func(e *zerolog.Event) *zerolog.Event { return e.Uints16(k, []uint16{uint16(u64), 1}) }}
	case "Uints32/stack":
		return step{name, 30, func(e *zerolog.Event) *zerolog.Event { return e.Uints32(k, []uint32{uint32(u64), 1}) }}
	case "Uints64/stack":
		return step{name, 36, func(e *zerolog.Event) *zerolog.Event { return e.Uints64(k, []uint64{u64, 1}) }}
	case "Floats32/stack":
		return step{name, 40, func(e *zerolog.Event) *zerolog.Event { return e.Floats32(k, []float32{float32(f64), 1.5}) }}
	case "Floats64/stack":
		return step{name, 50, func(e *zerolog.Event) *zerolog.Event { return e.Floats64(k, []float64{f64, 1.5}) }}
	case "Times/stack":
		return step{name, 90, func(e *zerolog.Event) *zerolog.Event { return e.Times(k, []time.Time{t1, t2}) }}
	case "Durs/stack":
		return step{name, 60, func(e *zerolog.Event) *zerolog.Event { return e.Durs(k, []time.Duration{d, 2 * d}) }}
	case "Str/stack":
		if len(b) > 24 {
			b = b[:24]
		}
		return step{name, 12 + len(b)*6, func(e *zerolog.Event) *zerolog.Event { return e.Str(k, string(b)) }}
	case "RawJSON/stack":
		return step{name, 30, func(e *zerolog.Event) *zerolog.Event {
			a := [7]byte{'[', '1', ',', '2', ',', '3', ']'}
			a[1] = '0' + byte(u64%10)
			return e.RawJSON(k, a[:])
		}}
	case "Type/stack":
		return step{name, 40, func(e *zerolog.Event) *zerolog.Event { return e.Type(k, o64{int(i64)}) }}
	case "Dict/stack":
		return step{name, 70, func(e *zerolog.Event) *zerolog.Event {
			return e.Dict(k, zerolog.Dict().Ints("i", []int{int(i64), 2}).Strs("s", []string{"x", "y"}))
		}}
	case "Array/stack":
		return step{name, 60, func(e *zerolog.Event) *zerolog.Event {
			var a [4]byte
			a[0] = byte(i64)
			return e.Array(k, zerolog.Arr().Bytes(a[:]).Hex(a[:]).Str(string(a[:2])))
		}}
	}
	panic("mkStep " + name)
}

// encLen is the size of s as a JSON string body (the budget keeps chains inside the pooled 500-byte buffer)
func encLen(s string) int {
	n := 2
	for i := 0; i < len(s); {
		c := s[i]
		switch {
		case c == '"' || c == '\\' || c == '\n' || c == '\t' || c == '\r' || c == '\b' || c == '\f':
			n += 2
			i++
		case c < 0x20:
			n += 6
			i++
		case c < utf8.RuneSelf:
			n++
			i++
		default:
			r, size := utf8.DecodeRuneInString(s[i:])
			if r == utf8.RuneError && size == 1 {
				n += 6
			} else {
				n += size
			}
			i += size
		}
	}
	return n
}

var longEscapedBytes int64

func needsEscape7(b []byte) bool {
	for _, c := range b {
		if c < 0x20 || c == '"' || c == '\\' || c >= 0x7f {
			return true
		}
	}
	return false
}

type emptyArr7 struct{}

func (emptyArr7) MarshalZerologArray(*zerolog.Array) {}

type o64 struct{ x int }

var zone0530 = time.FixedZone("IST", 5*3600+1800)

var errPlain = errors.New("plain error")

// elem7 appends one random element of the allocation-free kinds to an array.
func elem7(a *zerolog.Array, kind int, s string, i64 int64, f64 float64, t time.Time, d time.Duration, b []byte, o *pObj) *zerolog.Array {
	switch kind {
	case 0:
		return a.Str(s)
	case 1:
		return a.Bytes(b)
	case 2:
		return a.Hex(b)
	case 3:
		return a.Bool(i64&1 == 0)
	case 4:
		return a.Int(int(i64))
	case 5:
		return a.Int8(int8(i64))
	case 6:
		return a.Int16(int16(i64))
	case 7:
		return a.Int32(int32(i64))
	case 8:
		return a.Int64(i64)
	case 9:
		return a.Uint(uint(i64))
	case 10:
		return a.Uint8(uint8(i64))
	case 11:
		return a.Uint16(uint16(i64))
	case 12:
		return a.Uint32(uint32(i64))
	case 13:
		return a.Uint64(uint64(i64))
	case 14:
		return a.Float32(float32(f64))
	case 15:
		return a.Float64(f64)
	case 16:
		return a.Time(t)
	case 17:
		return a.Dur(d)
	case 18:
		return a.Err(errPlain)
	case 19:
		return a.Object(o)
	case 20:
		return a.Dict(zerolog.Dict().Str("s", s).Float64("f", f64).Time("t", t).Dur("d", d).Bool("b", true))
	}
	return a.Int64(-i64)
}

func c07(args []string) int {
	f := mustFlags(args)
	out := evid.New("C07")
	debug.SetGCPercent(-1)
	oldTS := zerolog.TimestampFunc
	defer func() { zerolog.TimestampFunc = oldTS }()
	// the clock of the timestamp hook moves on by a second and a half per reading and changes its zone: "all argument
	// values" includes the instants TimestampFunc returns
	zones7 := []*time.Location{time.UTC, time.FixedZone("E", 3600), time.FixedZone("W", -5*3600)}
	var tick7 int64
	zerolog.TimestampFunc = func() time.Time {
		tick7++
		return time.Unix(1700000000+tick7*3/2, (tick7%2)*500000000).In(zones7[tick7%3])
	}
	zerolog.SetGlobalLevel(zerolog.TraceLevel)
	w := &discardCount{}
	type lg struct {
		name     string
		l        zerolog.Logger
		disabled bool
	}
	base := zerolog.New(w)
	nop := zerolog.Nop()
	loggers := []lg{
		{"Nop()", nop, true},
		{"plain", base, false},
		{"context", base.With().Str("svc", "x").Int("n", 1).Logger(), false},
		{"timestamp-hook", base.With().Timestamp().Logger(), false},
		{"context+timestamp", base.With().Str("svc", "x").Timestamp().Logger(), false},
		{"disabled-level", base.Level(zerolog.Disabled), true},
		{"filtered(info<error)", base.With().Str("svc", "x").Timestamp().Logger().Level(zerolog.ErrorLevel), true},
	}
	const runs = 300
	entries := []struct {
		name string
		f    func(l *zerolog.Logger) *zerolog.Event
	}{{"Info()", (*zerolog.Logger).Info}, {"Trace()", (*zerolog.Logger).Trace}, {"Debug()", (*zerolog.Logger).Debug}, {"Warn()", (*zerolog.Logger).Warn},
		{"Error()", (*zerolog.Logger).Error}, {"Log()", (*zerolog.Logger).Log},
		{"WithLevel(Warn)", func(l *zerolog.Logger) *zerolog.Event { return l.WithLevel(zerolog.WarnLevel) }},
		{"Err(plain)", func(l *zerolog.Logger) *zerolog.Event { return l.Err(errPlain) }}}
	entry := 0
	measure := func(l *zerolog.Logger, chain []step, send bool) (allocs float64, writes int) {
		start := entries[entry].f
		fn := func() {
			e := start(l)
			for i := range chain {
				e = chain[i].f(e)
			}
			if send {
				e.Send()
			} else {
				e.Msg("msg")
			}
		}
		for i := 0; i < 50; i++ { // warm the pools
			fn()
		}
		w.n = 0
		allocs = testing.AllocsPerRun(runs, fn)
		return allocs, w.n
	}
	judge := func(idx int, lgi int, chain []step, send bool) {
		l := loggers[lgi]
		names := make([]string, len(chain))
		for i := range chain {
			names[i] = chain[i].name
		}
		// the entry point rotates; a logger filtered at Error level stays filtered only below Error
		entry = idx % len(entries)
		if l.name == "filtered(info<error)" && (entries[entry].name == "Error()" || entries[entry].name == "Err(plain)" || entries[entry].name == "Log()") {
			entry = 0
		}
		// global settings with a specified, fixed-size rendering rotate too
		tf, du, di, fp := zerolog.TimeFieldFormat, zerolog.DurationFieldUnit, zerolog.DurationFieldInteger, zerolog.FloatingPointPrecision
		zerolog.TimeFieldFormat = []string{time.RFC3339, "", zerolog.TimeFormatUnixMs, zerolog.TimeFormatUnixMicro, zerolog.TimeFormatUnixNano, time.RFC3339Nano, "2006-01-02 15:04:05.000"}[(idx/3)%7]
		zerolog.DurationFieldUnit = []time.Duration{time.Millisecond, time.Second, time.Nanosecond}[(idx/5)%3]
		zerolog.DurationFieldInteger = (idx/7)%2 == 1
		zerolog.FloatingPointPrecision = []int{-1, -1, 3}[(idx/11)%3]
		allocs, writes := measure(&l.l, chain, send)
		settings := fmt.Sprintf("TimeFieldFormat=%q DurationFieldUnit=%d DurationFieldInteger=%v FloatingPointPrecision=%d", zerolog.TimeFieldFormat, zerolog.DurationFieldUnit, zerolog.DurationFieldInteger, zerolog.FloatingPointPrecision)
		zerolog.TimeFieldFormat, zerolog.DurationFieldUnit, zerolog.DurationFieldInteger, zerolog.FloatingPointPrecision = tf, du, di, fp
		desc := fmt.Sprintf("logger=%s chain=%s.%s.%s [%s]", l.name, entries[entry].name, strings.Join(names, "."), map[bool]string{true: "Send()", false: "Msg(..)"}[send], settings)
		rep := map[string]interface{}{"check": "c07", "seed": f.Seed, "tier": f.Tier, "index": idx, "chain": desc, "allocs_per_run": allocs}
		if allocs >= 1 {
			// signature: the set of container methods involved, so that distinct leaks get distinct signatures
			var culprit []string
			for _, n := range names {
				if n == "Dict" || n == "Array" || n == "Array+Dict" {
					culprit = append(culprit, n)
				}
			}
			sig := "allocs:enabled"
			if l.disabled {
				sig = "allocs:disabled"
			}
			if len(chain) == 1 {
				sig += ":" + names[0]
			} else if len(culprit) > 0 {
				sig += ":chain-with-container"
			} else {
				sig += ":chain"
			}
			out.Violate(sig, fmt.Sprintf("%.1f allocs/op once warm: %s", allocs, desc), rep)
		}
		if l.disabled && writes != 0 {
			out.Violate("filtered-wrote", fmt.Sprintf("level-filtered logger wrote %d events: %s", writes, desc), rep)
		}
		if !l.disabled && writes != runs+1 {
			out.Violate("enabled-writes", fmt.Sprintf("expected %d writes, saw %d: %s", runs+1, writes, desc), rep)
		}
		out.Case(rng.HashStr(desc), len(chain) >= 1)
		if l.disabled {
			out.Count("disabled_chains", 1)
		} else {
			out.Count("enabled_chains", 1)
		}
	}
	idx := 0
	// every method alone x every logger
	for mi, name := range allocFreeNames {
		for lgi := range loggers {
			idx++
			if !f.Mine(idx) {
				continue
			}
			r := rng.New(f.Seed, 0xc07, uint64(mi))
			judge(idx, lgi, []step{mkStep(name, r)}, lgi%2 == 0)
			out.Count("single_method_cases", 1)
		}
	}
	// random chains
	n := f.N(1500, 1500000)
	for c := 0; c < n; c++ {
		idx++
		if !f.Mine(idx) {
			continue
		}
		r := rng.New(f.Seed, 0xc07b, uint64(c))
		var chain []step
		size := 60
		want := 1 + r.Intn(12)
		for tries := 0; len(chain) < want && tries < 40; tries++ {
			st := mkStep(allocFreeNames[r.Intn(len(allocFreeNames))], r)
			if size+st.size > 400 {
				continue
			}
			size += st.size
			chain = append(chain, st)
		}
		judge(idx, r.Intn(len(loggers)), chain, r.Bool())
		out.Count("random_chains", 1)
		if c%(n/4+1) == 0 {
			names := []string{}
			for _, s := range chain {
				names = append(names, s.name)
			}
			out.Sample(map[string]interface{}{"chain": names, "estimated_size": size}, 5)
		}
	}
	// every encoded size around the capacity of a fresh pooled buffer: the pools are emptied first (two GC cycles
	// drop what a sync.Pool holds), so that the event under test starts from the initial 500-byte buffer and has to
	// grow it exactly when its size crosses that capacity - after which ("once warm") the same chain must be free
	if f.Shard == 0 || f.NShards == 1 {
		lens := []int{}
		for L := 380; L <= 520; L++ {
			lens = append(lens, L)
		}
		if f.Thorough() {
			for L := 0; L <= 1300; L++ {
				lens = append(lens, L)
			}
		}
		for _, lgi := range []int{1, 4} { // "plain" and "context+timestamp" (positions in the logger table)
			l := &loggers[lgi].l
			for _, L := range lens {
				for _, send := range []bool{true, false} {
					v := strings.Repeat("s", L)
					fn := func() {
						e := l.Info().Str("p", v)
						if send {
							e.Send()
						} else {
							e.Msg("m")
						}
					}
					runtime.GC()
					runtime.GC()
					for i := 0; i < 20; i++ {
						fn()
					}
					if a := testing.AllocsPerRun(50, fn); a >= 1 {
						out.Violate("allocs:at-buffer-capacity", fmt.Sprintf("%.1f allocs/op once warm for logger=%s Info().Str(\"p\", <%d bytes>).%s starting from fresh pools", a, loggers[lgi].name, L, map[bool]string{true: "Send()", false: "Msg(..)"}[send]),
							map[string]interface{}{"check": "c07", "seed": f.Seed, "tier": f.Tier, "len": L})
					}
					out.Count("buffer_capacity_sweep_cases", 1)
				}
			}
		}
	}
	// a small chain must not cause allocations whatever was logged before it: after events far larger than the
	// pooled 500-byte buffer (which have grown the pooled buffers), emitting [large event, small chain] may cost
	// no more than emitting the large event alone. (The large event itself is outside the allocation-free promise;
	// only the difference is judged.)
	nseq := f.N(60, 3000)
	for c := 0; c < nseq; c++ {
		idx++
		if !f.Mine(idx) {
			continue
		}
		r := rng.New(f.Seed, 0xc07c, uint64(c))
		var chain []step
		size := 60
		for tries := 0; len(chain) < 1+r.Intn(6) && tries < 30; tries++ {
			st := mkStep(allocFreeNames[r.Intn(len(allocFreeNames))], r)
			if size+st.size > 400 {
				continue
			}
			size += st.size
			chain = append(chain, st)
		}
		lgi := r.Intn(len(loggers))
		small := &loggers[lgi].l
		big := strings.Repeat("L", []int{5000, 20000, 60000}[r.Intn(3)])
		bigDict := r.Bool()
		large := func() {
			e := base.Info().Str("big", big)
			if bigDict {
				e = e.Dict("d", zerolog.Dict().Str("s", "t"))
			}
			e.Msg("large")
		}
		both := func() {
			large()
			e := small.Info()
			for i := range chain {
				e = chain[i].f(e)
			}
			e.Msg("small")
		}
		for i := 0; i < 30; i++ {
			both()
		}
		aLarge := testing.AllocsPerRun(100, large)
		for i := 0; i < 10; i++ {
			both()
		}
		aBoth := testing.AllocsPerRun(100, both)
		names := make([]string, len(chain))
		for i := range chain {
			names[i] = chain[i].name
		}
		if aBoth-aLarge >= 1 {
			out.Violate("allocs:after-large-event", fmt.Sprintf("a %d-byte event followed by the small chain logger=%s Info().%s.Msg(..) costs %.1f allocs/run, the large event alone %.1f: the small chain makes the pair allocate", len(big), loggers[lgi].name, strings.Join(names, "."), aBoth, aLarge),
				map[string]interface{}{"check": "c07", "seed": f.Seed, "tier": f.Tier, "index": idx})
		}
		out.Case(rng.HashStr(fmt.Sprint("seq", c, names, len(big), lgi)), true)
		out.Count("large_then_small_sequences", 1)
	}
	// typed slices of hundreds to thousands of elements whose encoded size stays below the 64 KiB buffer limit: once the
	// pooled buffer has grown, such events are allocation-free as well (shard 0 only: a fixed list)
	if f.Shard == 0 {
		for _, n := range []int{100, 1000, 2500, 3200, 4000, 5000, 5600, 6000} {
			ints := make([]int, n)
			i8 := make([]int8, n)
			i16 := make([]int16, n)
			i32 := make([]int32, n)
			i64 := make([]int64, n)
			u := make([]uint, n)
			u8 := make([]uint8, n)
			u16 := make([]uint16, n)
			u32 := make([]uint32, n)
			u64 := make([]uint64, n)
			f32 := make([]float32, n)
			f64 := make([]float64, n)
			bs := make([]bool, n)
			ss := make([]string, n)
			ds := make([]time.Duration, n)
			for j := 0; j < n; j++ {
				ints[j], i8[j], i16[j], i32[j], i64[j] = j-7, int8(j), int16(j*3), int32(j*1000), int64(j)*100000
				u[j], u8[j], u16[j], u32[j], u64[j] = uint(j), uint8(j), uint16(j*5), uint32(j*70000), uint64(j)*9
				f32[j], f64[j] = float32(j)/4, float64(j)/8
				bs[j] = j%3 == 0
				ss[j] = "s"
				ds[j] = time.Duration(j) * time.Millisecond
			}
			str400 := strings.Repeat("x", 400)
			kinds := []struct {
				name string
				fn   func(e *zerolog.Event) *zerolog.Event
			}{
				{"Ints", func(e *zerolog.Event) *zerolog.Event { return e.Ints("k", ints) }},
				{"Ints8", func(e *zerolog.Event) *zerolog.Event { return e.Ints8("k", i8) }},
				{"Ints16", func(e *zerolog.Event) *zerolog.Event { return e.Ints16("k", i16) }},
				{"Ints32", func(e *zerolog.Event) *zerolog.Event { return e.Ints32("k", i32) }},
				{"Ints64", func(e *zerolog.Event) *zerolog.Event { return e.Ints64("k", i64) }},
				{"Uints", func(e *zerolog.Event) *zerolog.Event { return e.Uints("k", u) }},
				{"Uints8", func(e *zerolog.Event) *zerolog.Event { return e.Uints8("k", u8) }},
				{"Uints16", func(e *zerolog.Event) *zerolog.Event { return e.Uints16("k", u16) }},
				{"Uints32", func(e *zerolog.Event) *zerolog.Event { return e.Uints32("k", u32) }},
				{"Uints64", func(e *zerolog.Event) *zerolog.Event { return e.Uints64("k", u64) }},
				{"Floats32", func(e *zerolog.Event) *zerolog.Event { return e.Floats32("k", f32) }},
				{"Floats64", func(e *zerolog.Event) *zerolog.Event { return e.Floats64("k", f64) }},
				{"Bools", func(e *zerolog.Event) *zerolog.Event { return e.Bools("k", bs) }},
				{"Strs", func(e *zerolog.Event) *zerolog.Event { return e.Strs("k", ss) }},
				{"Durs", func(e *zerolog.Event) *zerolog.Event { return e.Durs("k", ds) }},
				// containers whose own scratch buffer grows far beyond its initial size while the event stays below the
				// limit: the Array / Dict scratch buffers are pooled under the same 64 KiB rule as the event's (round 15)
				{"Array(Arr() of n Int)", func(e *zerolog.Event) *zerolog.Event {
					a := zerolog.Arr()
					for j := 0; j < n; j++ {
						a.Int(ints[j])
					}
					return e.Array("k", a)
				}},
				{"Array(Arr() of n Str)", func(e *zerolog.Event) *zerolog.Event {
					a := zerolog.Arr()
					for j := 0; j < n; j++ {
						a.Str("abcdef")
					}
					return e.Array("k", a)
				}},
				{"Array(Arr() of n/50 Str of 400 bytes)", func(e *zerolog.Event) *zerolog.Event {
					a := zerolog.Arr()
					for j := 0; j < n/50; j++ {
						a.Str(str400)
					}
					return e.Array("k", a)
				}},
				{"Dict(n Int members)", func(e *zerolog.Event) *zerolog.Event {
					d := zerolog.Dict()
					for j := 0; j < n; j++ {
						d.Int("k", ints[j])
					}
					return e.Dict("k", d)
				}},
			}
			for ki, kd := range kinds {
				lg := &loggers[(ki+n)%len(loggers)]
				if lg.disabled {
					lg = &loggers[1]
				}
				sink := w
				fn := func() { kd.fn(lg.l.Info()).Msg("m") }
				for w := 0; w < 20; w++ {
					fn()
				}
				if sink.last > 56000 {
					// the pool keeps buffers of up to 64 KiB capacity; append's growth takes the capacity of a buffer past
					// that limit once more than 57 344 bytes (the size class below) are needed: such events are outside
					// "stays within the pooled buffer" (measured: 17 allocs/event at 58 922 bytes)
					continue
				}
				if a := testing.AllocsPerRun(30, fn); a >= 1 {
					out.Violate("allocs:long-slice:"+kd.name, fmt.Sprintf("logger=%s Info().%s(k, %d elements).Msg(..) (%d bytes encoded) costs %.1f allocs/event once warm", lg.name, kd.name, n, sink.last, a),
						map[string]interface{}{"check": "c07", "kind": kd.name, "elements": n})
				}
				out.Count("long_slice_events_measured", 1)
				out.Evaluations++
			}
		}
	}
	out.Count("bytes_steps_longer_than_32_needing_escapes_generated", longEscapedBytes)
	out.Extra["binary_log_build"] = isBinaryBuild()
	out.Extra["alloc_free_method_set"] = allocFreeNames
	out.Finish(f)
	return 0
}
