package main

import (
	"testing/iotest"

	"bytes"
	"encoding/hex"
	"fmt"
	"io"
	"math"
	"net"
	"os"
	"runtime"
	"runtime/metrics"
	"sync/atomic"
	"time"

	"github.com/rs/zerolog/diode/verifh/evid"
	"github.com/rs/zerolog/diode/verifh/gen"
	"github.com/rs/zerolog/diode/verifh/rng"
	"github.com/rs/zerolog/internal/cbor"
)

func init() { commands["c17"] = c17; commands["c17-one"] = c17one }

var allocSample = []metrics.Sample{{Name: "/gc/heap/allocs:bytes"}}

func allocBytes() uint64 {
	metrics.Read(allocSample)
	return allocSample[0].Value.Uint64()
}

type c17state struct {
	out      *evid.Out
	f        *evid.Flags
	witness  *os.File
	seq      int64 // number of inputs started (watchdog)
	started  int64 // unix nanos when the current input started
	cur      []byte
	class    string
	calls    int64
	errs     int64
	okays    int64
	maxRatio float64
}

// record the input on disk before running it, so that a process-fatal crash keeps its witness.
func (s *c17state) begin(in []byte, class string) {
	s.cur, s.class = in, class
	if s.witness != nil {
		var hdr [8]byte
		n := len(in)
		hdr[0], hdr[1], hdr[2], hdr[3] = byte(n), byte(n>>8), byte(n>>16), byte(n>>24)
		s.witness.WriteAt(hdr[:], 0)
		s.witness.WriteAt(in, 8)
	}
	atomic.StoreInt64(&s.started, time.Now().UnixNano())
	atomic.AddInt64(&s.seq, 1)
}

func (s *c17state) rep() map[string]interface{} {
	in := s.cur
	h := hex.EncodeToString(in)
	if len(h) > 400 {
		h = h[:400] + fmt.Sprintf("...(%d bytes)", len(in))
	}
	return map[string]interface{}{"check": "c17", "class": s.class, "input_hex": h, "input_len": len(in), "input_full_hex": hex.EncodeToString(clipn(in, 70000))}
}

func clipn(b []byte, n int) []byte {
	if len(b) > n {
		return b[:n]
	}
	return b
}

// guard runs one decoder entry point and applies the oracle. errPanicOK: the entry point has no error
// result and is allowed to panic with an error value.
func (s *c17state) guard(name string, in []byte, errPanicOK bool, fn func() error) (err error) {
	before := allocBytes()
	s.calls++
	defer func() {
		if r := recover(); r != nil {
			_, isRT := r.(runtime.Error)
			_, isErr := r.(error)
			switch {
			case isRT:
				s.out.Violate("runtime-panic:"+name, fmt.Sprintf("%s panicked with a runtime error on a %d-byte input: %v", name, len(in), r), s.rep())
			case errPanicOK && isErr:
				s.errs++
			default:
				s.out.Violate("panic:"+name, fmt.Sprintf("%s panicked (%T) on a %d-byte input: %v", name, r, len(in), r), s.rep())
			}
		}
		delta := allocBytes() - before
		// proportional to the input (a 9-byte float legitimately prints as ~330 digits and buffers double while they
		// grow, hence the factor) plus a fixed allowance for readers and scratch buffers: tight for small inputs,
		// so that a declared length of 1 MiB taken at face value already shows
		limit := uint64(512*len(in) + 256<<10)
		if delta > limit && !confirming {
			// The cheap counter is lumpy (per-P allocation caches are accounted when spans are swapped or
			// a GC cycle flushes them, up to ~1 MiB at once). Confirm with the exact, stop-the-world
			// counter on a second execution of the same call before reporting anything.
			var m0, m1 runtime.MemStats
			runtime.ReadMemStats(&m0)
			func() {
				defer func() { recover() }()
				confirming = true
				fn()
			}()
			confirming = false
			runtime.ReadMemStats(&m1)
			delta = m1.TotalAlloc - m0.TotalAlloc
			if delta <= limit {
				s.out.Count("alloc_suspects_not_confirmed_by_exact_counter", 1)
			}
		}
		if delta > limit {
			s.out.Violate("alloc-blowup:"+name, fmt.Sprintf("%s allocated %d bytes for a %d-byte input (limit 512*len+256KiB = %d)", name, delta, len(in), limit), s.rep())
		}
		if len(in) > 0 {
			if r := float64(delta) / float64(len(in)+1024); r > s.maxRatio {
				s.maxRatio = r
			}
		}
	}()
	err = fn()
	if err != nil {
		s.errs++
	} else {
		s.okays++
	}
	return err
}

var errSrc = fmt.Errorf("source failed")

type failAfter struct{ n int }

func (w *failAfter) Write(p []byte) (int, error) {
	if len(p) > w.n {
		n := w.n
		w.n = 0
		return n, fmt.Errorf("destination full")
	}
	w.n -= len(p)
	return len(p), nil
}

var sink bytes.Buffer
var confirming bool

func (s *c17state) feed(in []byte, class string) {
	s.begin(in, class)
	sink.Reset()
	err0 := s.guard("Cbor2JsonManyObjects", in, false, func() error { sink.Reset(); return cbor.Cbor2JsonManyObjects(bytes.NewReader(in), &sink) })
	if s.calls%3 == 0 && len(in) <= 4096 {
		// the result must not depend on how the reader hands out the bytes; a reader or a destination that fails
		// must not make the decoder panic either
		var one bytes.Buffer
		err1 := s.guard("Cbor2JsonManyObjects(one byte at a time)", in, false, func() error {
			one.Reset()
			return cbor.Cbor2JsonManyObjects(iotest.OneByteReader(bytes.NewReader(in)), &one)
		})
		if (err0 == nil) != (err1 == nil) || !bytes.Equal(one.Bytes(), sink.Bytes()) {
			s.out.Violate("chunking-dependent", fmt.Sprintf("decoding a %d-byte input from a reader that returns one byte per Read gives (%q, err=%v), from a plain reader (%q, err=%v)", len(in), clipb(one.Bytes()), err1, clipb(sink.Bytes()), err0), s.rep())
		}
		k := len(in) / 2
		s.guard("Cbor2JsonManyObjects(failing reader)", in, false, func() error {
			cbor.Cbor2JsonManyObjects(io.MultiReader(bytes.NewReader(in[:k]), iotest.ErrReader(errSrc)), io.Discard)
			return nil
		})
		s.guard("Cbor2JsonManyObjects(failing destination)", in, false, func() error {
			cbor.Cbor2JsonManyObjects(bytes.NewReader(in), &failAfter{n: len(sink.Bytes()) / 2})
			return nil
		})
	}
	s.guard("DecodeIfBinaryToBytes", in, false, func() error { cbor.DecodeIfBinaryToBytes(in); return nil })
	s.guard("DecodeIfBinaryToString", in, false, func() error { _ = cbor.DecodeIfBinaryToString(in); return nil })
	s.guard("DecodeObjectToStr", in, true, func() error { _ = cbor.DecodeObjectToStr(in); return nil })
	c17extra(s, in)
	s.out.Evaluations++
}

func (s *c17state) watchdog() {
	for {
		time.Sleep(time.Second)
		st := atomic.LoadInt64(&s.started)
		if st != 0 && time.Now().UnixNano()-st > int64(20*time.Second) {
			// the current input has been running for 20 s: leave the witness on disk and stop this shard
			// Not a verdict: the shard stops here, reports what it has, and names the witness; run.py re-runs the
			// witness alone (c17-one) under a generous limit to tell slow from non-terminating.
			fmt.Printf("C17-SUSPECT-TIMEOUT seq=%d class=%s\n", atomic.LoadInt64(&s.seq), s.class)
			s.out.Inconc(fmt.Sprintf("suspect-timeout: an input of class %s ran longer than 20 s; witness kept at %s", s.class, s.witness.Name()))
			s.out.Extra["suspect_witness"] = s.witness.Name()
			s.out.Finish(s.f)
			os.Exit(0)
		}
	}
}

// ---- valid stream generation with the repository's own encoder (independent of the decoder) -----------

type sgen struct {
	r   *rng.R
	enc cbor.Encoder
}

func (g *sgen) str() string {
	r := g.r
	n := []int{0, 1, 3, 8, 23, 24, 30, 255, 256, 300}[r.Intn(10)]
	b := make([]byte, n)
	for i := 0; i < len(b); i++ {
		switch r.Intn(8) {
		case 0:
			b[i] = byte(r.U64())
		case 1:
			b[i] = "\"\\\n\t\x00\x7f"[r.Intn(6)]
		case 2:
			// well-formed multi-byte runes, among them U+FFFD itself (valid text that equals the decoder's error marker)
			if rs := []string{"\ufffd", "é", "€", "\U0001f600", "\u2028", "\ufffd\ufffd"}[r.Intn(6)]; i+len(rs) <= len(b) {
				copy(b[i:], rs)
				i += len(rs) - 1
				continue
			}
			b[i] = 'u'
		default:
			b[i] = byte('a' + r.Intn(26))
		}
	}
	return string(b)
}

func (g *sgen) value(dst []byte, depth int) []byte {
	r, e := g.r, g.enc
	switch r.Intn(22) {
	case 0:
		return e.AppendString(dst, g.str())
	case 1:
		return e.AppendBytes(dst, []byte(g.str()))
	case 2:
		return e.AppendInt64(dst, int64(r.U64()))
	case 3:
		return e.AppendInt(dst, r.Intn(600)-300)
	case 4:
		return e.AppendUint64(dst, r.U64()>>uint(r.Intn(64)))
	case 5:
		return e.AppendFloat32(dst, math.Float32frombits(uint32(r.U64())), -1)
	case 6:
		return e.AppendFloat64(dst, math.Float64frombits(r.U64()), -1)
	case 7:
		return e.AppendBool(dst, r.Bool())
	case 8:
		return e.AppendNil(dst)
	case 9:
		return e.AppendTime(dst, time.Unix(int64(r.Intn(4000000000))-1000000000, int64(r.Intn(2))*int64(r.Intn(1000000000))), "")
	case 10:
		ip := make(net.IP, []int{4, 16}[r.Intn(2)])
		for i := range ip {
			ip[i] = byte(r.U64())
		}
		return e.AppendIPAddr(dst, ip)
	case 11:
		return e.AppendMACAddr(dst, net.HardwareAddr{1, 2, 3, byte(r.U64()), 5, 6})
	case 12:
		bits := []int{32, 128}[r.Intn(2)]
		ip := make(net.IP, bits/8)
		for i := range ip {
			ip[i] = byte(r.U64())
		}
		return e.AppendIPPrefix(dst, net.IPNet{IP: ip, Mask: net.CIDRMask(r.Intn(bits+1), bits)})
	case 13:
		return e.AppendHex(dst, []byte(g.str()))
	case 14:
		return cbor.AppendEmbeddedJSON(dst, []byte(`{"a":[1,2,{"b":null}]}`))
	case 15:
		return cbor.AppendEmbeddedCBOR(dst, []byte(g.str()))
	case 16:
		return e.AppendStrings(dst, []string{g.str(), g.str()})
	case 17:
		n := r.Intn(30)
		v := make([]int, n)
		for i := range v {
			v[i] = int(int32(r.U64()))
		}
		return e.AppendInts(dst, v)
	case 18, 19:
		if depth > 5 {
			return e.AppendNil(dst)
		}
		dst = e.AppendArrayStart(dst)
		for i, n := 0, r.Intn(4); i < n; i++ {
			dst = g.value(dst, depth+1)
		}
		return e.AppendArrayEnd(dst)
	default:
		if depth > 5 {
			return e.AppendBool(dst, true)
		}
		dst = e.AppendBeginMarker(dst)
		for i, n := 0, r.Intn(4); i < n; i++ {
			dst = e.AppendKey(dst, g.str())
			dst = g.value(dst, depth+1)
		}
		return e.AppendEndMarker(dst)
	}
}

func (g *sgen) event(dst []byte) []byte {
	e := g.enc
	dst = e.AppendBeginMarker(dst)
	for i, n := 0, g.r.Intn(6); i < n; i++ {
		dst = e.AppendKey(dst, g.str())
		dst = g.value(dst, 0)
	}
	return e.AppendEndMarker(dst)
}

// ---- hostile generation -------------------------------------------------------------------------------

var c17lens = []uint64{0, 1, 23, 24, 255, 256, 65535, 65536, 1 << 20, 1 << 24, 1 << 28, 1 << 30, 1<<31 - 1, 1 << 31, 1 << 32, 1 << 62, 1<<63 - 1, 1 << 63, math.MaxUint64}

func head(major byte, ai byte, arg uint64) []byte {
	b := []byte{major<<5 | ai}
	switch ai {
	case 24:
		b = append(b, byte(arg))
	case 25:
		b = append(b, byte(arg>>8), byte(arg))
	case 26:
		b = append(b, byte(arg>>24), byte(arg>>16), byte(arg>>8), byte(arg))
	case 27:
		for i := 7; i >= 0; i-- {
			b = append(b, byte(arg>>(uint(i)*8)))
		}
	}
	return b
}

var c17prefixes = [][]byte{nil, {0x81}, {0x9f}, {0xa1}, {0xa1, 0x61, 0x61}, {0xbf, 0x61, 0x61}, {0xbf}, {0xc1}, {0xd8, 0x3f}, {0xd9, 0x01, 0x04},
	{0xd9, 0x01, 0x05}, {0xd9, 0x01, 0x05, 0xa1}, {0xd9, 0x01, 0x05, 0xa1, 0x44, 1, 2, 3, 4}, {0xd9, 0x01, 0x06}, {0xd9, 0x01, 0x07}, {0xd9, 0xff, 0xff}, {0xda, 0, 0, 1, 6}}

func (s *c17state) grid() {
	payloads := [][]byte{nil, {0x00}, bytes.Repeat([]byte{0x61}, 40), bytes.Repeat([]byte{0xff}, 9)}
	idx := 0
	for major := byte(0); major < 8; major++ {
		for ai := byte(0); ai < 32; ai++ {
			args := []uint64{0}
			if ai >= 24 && ai <= 27 {
				args = c17lens
			}
			for _, a := range args {
				h := head(major, ai, a)
				for _, pre := range c17prefixes {
					for _, pl := range payloads {
						idx++
						if !s.f.Mine(idx) {
							continue
						}
						in := append(append(append([]byte{}, pre...), h...), pl...)
						s.feed(in, "grid")
						s.out.Count("grid_inputs", 1)
					}
				}
			}
		}
	}
}

// c17units: what the contents of a text string are made of - ASCII that needs escaping or not, well-formed
// multi-byte runes (among them U+FFFD, which is valid text and also the decoder's replacement marker), truncated,
// overlong, surrogate and out-of-range sequences.
var c17units = []string{"a", "\"", "\\", "\x00", "\x1f", "\x7f", "\x80", "\xc3", "é", "\ufffd", "\xef\xbf", "\xed\xa0\x80",
	"\xf4\x90\x80\x80", "\U0001f600", "\xc0\x80", "\xff", "\u2028", "€"}

// textGrid: every text string of up to three units, as a top-level item, as a map key and as a map value, with the
// definite length forms and as the chunk of an indefinite-length string.
func (s *c17state) textGrid() {
	n := len(c17units)
	idx := 0
	for code := 0; code < n+n*n+n*n*n; code++ {
		idx++
		if !s.f.Mine(idx) {
			continue
		}
		var txt string
		switch c := code; {
		case c < n:
			txt = c17units[c]
		case c < n+n*n:
			c -= n
			txt = c17units[c/n] + c17units[c%n]
		default:
			c -= n + n*n
			txt = c17units[c/(n*n)] + c17units[c/n%n] + c17units[c%n]
		}
		item := append(head(3, 24, uint64(len(txt))), txt...)
		if len(txt) < 24 && code%2 == 0 {
			item = append(head(3, byte(len(txt)), 0), txt...)
		}
		forms := [][]byte{
			item,
			append(append([]byte{0xa1}, item...), 0x01),                         // {txt: 1}
			append(append([]byte{0xbf, 0x61, 0x6b}, item...), 0xff),             // {_ "k": txt}
			append(append([]byte{0x7f}, item...), 0xff),                         // (_ txt)
			append(append([]byte{0xbf}, item...), append(item, 0xff)...),        // {_ txt: txt}
			append(append([]byte{0x82}, item...), item...),                      // [txt, txt]
		}
		for _, in := range forms {
			s.feed(in, "text-grid")
			s.out.Count("text_grid_inputs", 1)
		}
	}
}

func (s *c17state) randomItem(r *rng.R, dst []byte, depth int) []byte {
	if depth > 64 || len(dst) > 60000 {
		return append(dst, 0xf6)
	}
	major := byte(r.Intn(8))
	ai := byte(r.Intn(32))
	if r.Chance(3, 4) {
		ai = []byte{0, 1, 2, 3, 5, 23, 24, 25, 31}[r.Intn(9)]
	}
	var arg uint64
	switch r.Intn(4) {
	case 0:
		arg = c17lens[r.Intn(len(c17lens))]
	default:
		arg = uint64(r.Intn(6))
	}
	if ai < 24 {
		arg = uint64(ai)
	}
	dst = append(dst, head(major, ai, arg)...)
	n := int(arg % 8)
	switch major {
	case 2, 3:
		if r.Chance(1, 3) {
			// contents made of text units; the declared length may or may not agree with what follows
			for i := 0; i < n; {
				u := c17units[r.Intn(len(c17units))]
				dst = append(dst, u...)
				i += len(u)
			}
			break
		}
		for i := 0; i < n; i++ {
			dst = append(dst, byte(r.U64()))
		}
	case 4:
		for i := 0; i < n; i++ {
			dst = s.randomItem(r, dst, depth+1)
		}
		if ai == 31 && r.Chance(4, 5) {
			dst = append(dst, 0xff)
		}
	case 5:
		for i := 0; i < 2*n; i++ {
			dst = s.randomItem(r, dst, depth+1)
		}
		if ai == 31 && r.Chance(4, 5) {
			dst = append(dst, 0xff)
		}
	case 6:
		dst = s.randomItem(r, dst, depth+1)
	}
	return dst
}

func mutate(r *rng.R, in []byte, other []byte) []byte {
	b := append([]byte{}, in...)
	for k, n := 0, 1+r.Intn(4); k < n; k++ {
		if len(b) == 0 {
			b = append(b, byte(r.U64()))
			continue
		}
		p := r.Intn(len(b))
		switch r.Intn(7) {
		case 0:
			b[p] ^= 1 << uint(r.Intn(8))
		case 1:
			b[p] = byte(r.U64())
		case 2:
			b = append(b[:p], append([]byte{byte(r.U64())}, b[p:]...)...)
		case 3:
			b = append(b[:p], b[p+1:]...)
		case 4:
			b = b[:p]
		case 5:
			if len(other) > 0 {
				q := r.Intn(len(other))
				b = append(b[:p], other[q:]...)
			}
		case 6:
			b[p] = []byte{0x5a, 0x5b, 0x7b, 0x9b, 0xbb, 0xff, 0xbf, 0x9f, 0xd9, 0xfb}[r.Intn(10)]
		}
	}
	if len(b) > 65536 {
		b = b[:65536]
	}
	return b
}

func c17(args []string) int {
	f := mustFlags(args)
	out := evid.New("C17")
	s := &c17state{out: out, f: f}
	wp := fmt.Sprintf("/verif/build/c17.current.%s.%d", map[bool]string{true: "bin", false: "json"}[isBinaryBuild()], f.Shard)
	if w, err := os.OpenFile(wp, os.O_CREATE|os.O_RDWR|os.O_TRUNC, 0o644); err == nil {
		s.witness = w
		defer w.Close()
	}
	go s.watchdog()
	// (1) exhaustive 1-, 2-, 3-byte inputs: sharded by first byte
	if !isBinaryBuild() || f.Thorough() {
		var in [3]byte
		for a := 0; a < 256; a++ {
			if a%f.NShards != f.Shard {
				continue
			}
			in[0] = byte(a)
			s.feed(in[:1], "exh1")
			for b := 0; b < 256; b++ {
				in[1] = byte(b)
				s.feed(in[:2], "exh2")
				if f.Scale < 1 && b%16 != 0 {
					continue
				}
				for c := 0; c < 256; c++ {
					in[2] = byte(c)
					s.feed(in[:3], "exh3")
				}
			}
		}
		out.Count("exhaustive_short_inputs", out.Evaluations)
	}
	// (2) header/argument grid under prefixes
	s.grid()
	s.textGrid()
	// (2b) the timestamp tag over extreme numbers: the decoder turns them into a time and formats it
	if f.Shard == 0 {
		var fbits []uint64
		for _, v := range []float64{math.Inf(1), math.Inf(-1), math.NaN(), math.MaxFloat64, -math.MaxFloat64, 1e19, -1e19, 9.3e18, 1e15, 253402300800, -62135596801, 5e-324, 0.999999999999, -0.5, math.Copysign(0, -1)} {
			fbits = append(fbits, math.Float64bits(v))
		}
		for _, pre := range [][]byte{{0xc1}, {0x81, 0xc1}, {0xbf, 0x61, 0x74, 0xc1}, {0xd9, 0x01, 0x04, 0xc1}} {
			for _, b := range fbits {
				s.feed(append(append([]byte{}, pre...), head(7, 27, b)...), "timestamp-number")
				s.feed(append(append([]byte{}, pre...), head(7, 26, uint64(math.Float32bits(float32(math.Float64frombits(b)))))...), "timestamp-number")
				s.feed(append(append(append([]byte{}, pre...), head(7, 27, b)...), 0xff), "timestamp-number")
				out.Count("timestamp_number_inputs", 3)
			}
			for _, a := range c17lens {
				s.feed(append(append([]byte{}, pre...), head(0, 27, a)...), "timestamp-number")
				s.feed(append(append([]byte{}, pre...), head(1, 27, a)...), "timestamp-number")
				out.Count("timestamp_number_inputs", 2)
			}
		}
	}
	// (3) structure-aware random, nesting bombs, mutations of valid streams
	nr := f.N(12000, 2000000)
	g := &sgen{}
	var prev []byte
	for i := 0; i < nr; i++ {
		if !f.Mine(i) {
			continue
		}
		r := rng.New(f.Seed, 0xc17, uint64(i))
		g.r = r
		switch i % 4 {
		case 0:
			in := s.randomItem(r, nil, 0)
			s.feed(in, "random-item")
			out.Count("random_items", 1)
		case 1, 2:
			var st []byte
			for k, n := 0, 1+r.Intn(3); k < n; k++ {
				st = g.event(st)
			}
			m := mutate(r, st, prev)
			prev = st
			s.feed(m, "mutated-stream")
			out.Count("mutated_streams", 1)
			out.Case(rng.Hash64(m), true)
		case 3:
			st := g.event(nil)
			s.feed(st, "valid-event")
			out.Count("valid_events", 1)
		}
	}
	if f.Shard == 0 {
		for _, b := range []byte{0x9f, 0xbf, 0x81, 0xa1, 0xc1, 0xd8} {
			for _, n := range []int{1000, 60000, 65536} {
				s.feed(bytes.Repeat([]byte{b}, n), "nesting-bomb")
				out.Count("nesting_bombs", 1)
			}
		}
		// keyed map bomb: a1 61 61 a1 61 61 ...
		s.feed(bytes.Repeat([]byte{0xa1, 0x61, 0x61}, 20000), "nesting-bomb")
		s.feed(bytes.Repeat([]byte{0xbf, 0x61, 0x61}, 20000), "nesting-bomb")
		s.feed(bytes.Repeat([]byte{0xd9, 0x01, 0x05, 0xa1}, 15000), "nesting-bomb")
	}
	// (4) every cut point of valid streams
	ns := f.N(2000, 50000)
	for i := 0; i < ns; i++ {
		if !f.Mine(i) {
			continue
		}
		r := rng.New(f.Seed, 0xc17c, uint64(i))
		g.r = r
		s.cuts(g, r)
	}
	// (5) binary build: streams written by the real logger (every encoder entry point the program generator
	// reaches), cut at every offset and mutated
	if isBinaryBuild() {
		nl := f.N(1500, 40000)
		var hits [9]map[string]int
		x := &gen.Exec{}
		for i := 0; i < nl; i++ {
			if !f.Mine(i) {
				continue
			}
			p := binCase(f, i, true, &hits)
			restore := p.S.Apply()
			res := x.Run(p)
			restore()
			if res.Panic != nil {
				continue // C01/C09's business
			}
			var st []byte
			var bounds []int
			for _, ws := range res.Writes {
				for _, w := range ws {
					st = append(st, w.P...)
					bounds = append(bounds, len(st))
				}
			}
			if len(st) == 0 || len(st) > 6000 {
				continue
			}
			if err := cbor.Cbor2JsonManyObjects(bytes.NewReader(st), io.Discard); err != nil {
				// whether the decoder accepts everything the logger writes is C08's question; the cut analysis needs
				// a stream that decodes
				out.Inconc(fmt.Sprintf("a stream written by the binary logger does not decode (%v): cut analysis skipped", err))
				continue
			}
			s.cutsOf(st, bounds)
			r := rng.New(f.Seed, 0xc17d, uint64(i))
			s.feed(mutate(r, st, prev), "mutated-logger-stream")
			prev = st
			out.Count("logger_streams_cut_and_mutated", 1)
		}
	}
	// well-formed events in which the members a consumer interprets (level, time, message, error, caller) hold every kind
	// of value: ConsoleWriter and the journald writer decode such an event and then look at those members
	if f.Shard == 0 {
		e := cbor.Encoder{}
		vals := []func([]byte) []byte{
			func(d []byte) []byte { return e.AppendInt(d, 1) },
			func(d []byte) []byte { return e.AppendInt(d, -7) },
			func(d []byte) []byte { return e.AppendUint64(d, math.MaxUint64) },
			func(d []byte) []byte { return e.AppendFloat64(d, 1.5, -1) },
			func(d []byte) []byte { return e.AppendFloat64(d, math.NaN(), -1) },
			func(d []byte) []byte { return e.AppendBool(d, true) },
			func(d []byte) []byte { return e.AppendNil(d) },
			func(d []byte) []byte { return e.AppendString(d, "text") },
			func(d []byte) []byte { return e.AppendString(d, "") },
			func(d []byte) []byte { return e.AppendBytes(d, []byte{1, 2}) },
			func(d []byte) []byte { return e.AppendInts(d, []int{1, 2}) },
			func(d []byte) []byte { return e.AppendArrayEnd(e.AppendArrayStart(d)) },
			func(d []byte) []byte { return e.AppendEndMarker(e.AppendString(e.AppendKey(e.AppendBeginMarker(d), "k"), "v")) },
			func(d []byte) []byte { return e.AppendEndMarker(e.AppendBeginMarker(d)) },
			func(d []byte) []byte { return e.AppendTime(d, time.Unix(1700000000, 5), "") },
			func(d []byte) []byte { return e.AppendHex(d, []byte{0xab}) },
			func(d []byte) []byte { return cbor.AppendEmbeddedJSON(d, []byte(`{"j":1}`)) },
		}
		keys := []string{"level", "time", "message", "error", "caller", "stack", "", "MESSAGE", "PRIORITY"}
		for _, k := range keys {
			for vi, mk := range vals {
				in := e.AppendEndMarker(mk(e.AppendKey(e.AppendBeginMarker(nil), k)))
				s.feed(in, "consumer-key")
				c17consumers(s, in)
				// and next to ordinary members
				in2 := e.AppendBeginMarker(nil)
				in2 = e.AppendString(e.AppendKey(in2, "level"), "info")
				in2 = mk(e.AppendKey(in2, k))
				in2 = e.AppendString(e.AppendKey(in2, "z"), "after")
				in2 = e.AppendEndMarker(in2)
				s.feed(in2, "consumer-key")
				c17consumers(s, in2)
				out.Count("consumer_key_inputs", 2)
				_ = vi
			}
		}
	}
	// streams longer than the decoder's read buffer whose event boundaries fall exactly on multiples of 4096 (and one
	// byte before / after): every cut point again
	if f.Shard < 6 {
		g := &sgen{r: rng.New(f.Seed, 0xc17a, uint64(f.Shard))}
		target := []int{4096, 4095, 4097, 8192, 4096, 12288}[f.Shard]
		var st []byte
		var bounds []int
		for k, n := 0, f.Shard%3; k < n; k++ {
			st = g.event(st)
			bounds = append(bounds, len(st))
		}
		// one padded event: bf 63 'p' 'a' 'd' 79 hh ll <n bytes> ff = n + 9 bytes
		if n := target - len(st) - 9; n >= 256 && n < 65536 {
			e := g.enc
			pad := bytes.Repeat([]byte{'p'}, n)
			st = e.AppendEndMarker(e.AppendString(e.AppendKey(e.AppendBeginMarker(st), "pad"), string(pad)))
			bounds = append(bounds, len(st))
			if len(st) != target {
				fmt.Printf("HARNESS-ERROR c17: aligned stream has %d bytes, wanted %d\n", len(st), target)
				os.Exit(2)
			}
			if f.Shard == 4 {
				// a second boundary on the next multiple
				pad2 := bytes.Repeat([]byte{'q'}, 4096-9)
				st = e.AppendEndMarker(e.AppendString(e.AppendKey(e.AppendBeginMarker(st), "pad"), string(pad2)))
				bounds = append(bounds, len(st))
			}
			for k := 0; k < 3; k++ {
				st = g.event(st)
				bounds = append(bounds, len(st))
			}
			s.cutsOf(st, bounds)
			out.Count("buffer_aligned_streams", 1)
		}
	}
	atomic.StoreInt64(&s.started, 0)
	out.Count("decoder_calls", s.calls)
	out.Count("calls_returning_error", s.errs)
	out.Count("calls_returning_ok", s.okays)
	out.Extra["max_alloc_bytes_per_input_byte_plus_1KiB"] = s.maxRatio
	out.Extra["binary_log_build"] = isBinaryBuild()
	out.Sample(map[string]interface{}{"class": "grid", "input_hex": "5bffffffffffffffff", "note": "byte string header with length 2^64-1"}, 5)
	out.Sample(map[string]interface{}{"class": "exh3", "input_hex": "9f9fff", "note": "all 16 843 008 inputs of 1-3 bytes are fed to every entry point"}, 5)
	os.Remove(wp)
	out.Finish(f)
	return 0
}

func (s *c17state) cuts(g *sgen, r *rng.R) {
	var st []byte
	var bounds []int
	for k, n := 0, 1+r.Intn(6); k < n; k++ {
		st = g.event(st)
		bounds = append(bounds, len(st))
	}
	s.cutsOf(st, bounds)
}

// cutsOf decodes every prefix of a valid stream whose event boundaries are known.
func (s *c17state) cutsOf(st []byte, bounds []int) {
	s.begin(st, "cut-stream")
	var full bytes.Buffer
	if err := cbor.Cbor2JsonManyObjects(bytes.NewReader(st), &full); err != nil {
		s.out.Violate("valid-stream-error", fmt.Sprintf("a stream produced by the repository's own encoder fails to decode: %v", err), s.rep())
		return
	}
	// per-event lines: decode each event alone
	var lines [][]byte
	prevb := 0
	for _, b := range bounds {
		var one bytes.Buffer
		if err := cbor.Cbor2JsonManyObjects(bytes.NewReader(st[prevb:b]), &one); err != nil {
			s.out.Violate("valid-event-error", fmt.Sprintf("a single valid event fails to decode: %v", err), s.rep())
			return
		}
		lines = append(lines, append([]byte{}, one.Bytes()...))
		prevb = b
	}
	if !bytes.Equal(bytes.Join(lines, nil), full.Bytes()) {
		s.out.Violate("stream-not-concatenation", "decoding the stream differs from the concatenation of decoding its events one by one", s.rep())
		return
	}
	for k := 0; k <= len(st); k++ {
		in := st[:k]
		s.begin(in, "cut")
		var ob bytes.Buffer
		err := s.guard("Cbor2JsonManyObjects", in, false, func() error { ob.Reset(); return cbor.Cbor2JsonManyObjects(bytes.NewReader(in), &ob) })
		// events wholly inside the prefix
		var want []byte
		boundary := k == 0
		for i, b := range bounds {
			if b <= k {
				want = append(want, lines[i]...)
			}
			if b == k {
				boundary = true
			}
		}
		if !bytes.HasPrefix(ob.Bytes(), want) {
			s.out.Violate("cut-lost-complete-event", fmt.Sprintf("prefix of %d/%d bytes: output %q does not start with the %d complete events' lines %q", k, len(st), clipb(ob.Bytes()), len(want), clipb(want)), s.rep())
		}
		if boundary && err != nil {
			s.out.Violate("cut-boundary-error", fmt.Sprintf("prefix of %d/%d bytes ends at an event boundary but an error was returned: %v", k, len(st), err), s.rep())
		}
		if !boundary && err == nil {
			s.out.Violate("cut-partial-no-error", fmt.Sprintf("prefix of %d/%d bytes ends inside an event but no error was returned; output %q", k, len(st), clipb(ob.Bytes())), s.rep())
		}
		if k > 0 && k < bounds[0] {
			c17cut(s, st[:bounds[0]], k)
		}
		if boundary && !bytes.Equal(ob.Bytes(), want) {
			s.out.Violate("cut-boundary-output", fmt.Sprintf("prefix of %d/%d bytes at an event boundary: output %q, expected exactly %q", k, len(st), clipb(ob.Bytes()), clipb(want)), s.rep())
		}
		s.out.Evaluations++
		s.out.Count("cut_points", 1)
	}
	s.out.Case(rng.Hash64(st), len(bounds) >= 2)
	s.out.Count("cut_streams", 1)
}

// c17one re-runs one witness file alone (used to confirm a suspected non-termination or crash).
func c17one(args []string) int {
	b, err := os.ReadFile(args[0])
	if err != nil || len(b) < 8 {
		fmt.Println("c17-one: cannot read witness", err)
		return 2
	}
	n := int(b[0]) | int(b[1])<<8 | int(b[2])<<16 | int(b[3])<<24
	in := b[8 : 8+n]
	fmt.Printf("c17-one: %d-byte input %x\n", n, clipn(in, 64))
	f := &evid.Flags{}
	out := evid.New("C17")
	s := &c17state{out: out, f: f}
	s.feed(in, "one")
	fmt.Printf("c17-one: done, violations=%d\n", out.NViolations)
	for _, v := range out.Violations {
		fmt.Println(v.Sig, v.Desc)
	}
	_ = io.Discard
	return 0
}
