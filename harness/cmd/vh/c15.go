package main

import (
	"bytes"
	"fmt"
	"runtime"
	"sort"
	"strconv"
	"strings"
	"sync"
	"sync/atomic"
	"time"

	"github.com/anishathalye/porcupine"
	"github.com/rs/zerolog"
	"github.com/rs/zerolog/diode/verifh/evid"
	"github.com/rs/zerolog/diode/verifh/rng"
)

func init() { commands["c15"] = c15; commands["c15-conc"] = c15conc }

type tline struct {
	lvl zerolog.Level
	p   string
}

type tdest struct {
	mu    sync.Mutex
	got   []tline
	gids  []int64
	opix  []int64 // index of the operation the delivering goroutine was executing
	cur   map[int64]*int64
	plain bool
	tag   bool
	slow  int // 0: none; n: every delivery whose index is a multiple of n yields / sleeps first (widens a flush)
	ndel  int64
}

func goid() int64 {
	var buf [64]byte
	n := runtime.Stack(buf[:], false)
	// "goroutine 123 ["
	s := string(buf[10:n])
	i := strings.IndexByte(s, ' ')
	id, _ := strconv.ParseInt(s[:i], 10, 64)
	return id
}

func (d *tdest) rec(l zerolog.Level, p []byte) {
	var g, ix int64
	if d.tag {
		g = goid()
	}
	if d.slow > 0 {
		if k := atomic.AddInt64(&d.ndel, 1); k%int64(d.slow) == 0 {
			if k%2 == 0 {
				runtime.Gosched()
			} else {
				time.Sleep(30 * time.Microsecond)
			}
		}
	}
	d.mu.Lock()
	if c := d.cur[g]; c != nil {
		ix = atomic.LoadInt64(c)
	}
	d.got = append(d.got, tline{l, string(p)})
	d.gids = append(d.gids, g)
	d.opix = append(d.opix, ix)
	d.mu.Unlock()
}

type tdestLW struct{ *tdest }

func (d tdestLW) Write(p []byte) (int, error) { d.rec(-99, p); return len(p), nil }
func (d tdestLW) WriteLevel(l zerolog.Level, p []byte) (int, error) {
	d.rec(l, p)
	return len(p), nil
}

type tdestW struct{ *tdest }

func (d tdestW) Write(p []byte) (int, error) { d.rec(-99, p); return len(p), nil }

// reference model
type tmodel struct {
	cl, tl    zerolog.Level
	held      []tline
	triggered bool
}

func (m *tmodel) write(l zerolog.Level, p string) (outl []tline) {
	if !m.triggered && l >= m.tl {
		m.triggered = true
		outl = append(outl, m.held...)
		m.held = nil
	}
	if !m.triggered && l <= m.cl {
		m.held = append(m.held, tline{l, p})
		return
	}
	return append(outl, tline{l, p})
}
func (m *tmodel) trigger() (outl []tline) {
	if !m.triggered {
		m.triggered = true
		outl = m.held
		m.held = nil
	}
	return
}
func (m *tmodel) close() { m.held = nil }

var c15levels = []zerolog.Level{-128, -1, 0, 1, 3, 4, 5, 6, 7, 9, 11, 13, 127}

func c15body(r *rng.R, id int) string {
	switch r.Intn(12) {
	case 0:
		return "\n"
	case 4:
		return fmt.Sprintf("%d crlf\r\n", id) // a line whose last byte before the newline is a carriage return
	case 5:
		return []string{"\r\n", "\r\r\n", "\n"}[id%3]
	case 1:
		return fmt.Sprintf("%d\x00\xff\x0b\n", id)
	case 2:
		return fmt.Sprintf("%d %s\n", id, strings.Repeat("x", 1100)) // beyond the pooled 1024-byte buffer
	case 3:
		return fmt.Sprintf("%d %s\n", id, strings.Repeat("y", 70000)) // beyond TriggerLevelWriterBufferReuseLimit
	}
	return fmt.Sprintf("{\"id\":%d}\n", id)
}

type top struct {
	kind int // 0 write, 1 trigger, 2 close
	lvl  zerolog.Level
	p    string
}

func (o top) String() string {
	switch o.kind {
	case 1:
		return "Trigger()"
	case 2:
		return "Close()"
	}
	b := o.p
	if len(b) > 24 {
		b = b[:20] + fmt.Sprintf("...(%dB)", len(o.p))
	}
	return fmt.Sprintf("WriteLevel(%d,%q)", o.lvl, b)
}

func c15seq(out *evid.Out, cl, tl zerolog.Level, plain bool, ops []top) {
	d := &tdest{plain: plain}
	tw := &zerolog.TriggerLevelWriter{ConditionalLevel: cl, TriggerLevel: tl}
	if plain {
		tw.Writer = tdestW{d}
	} else {
		tw.Writer = tdestLW{d}
	}
	m := &tmodel{cl: cl, tl: tl}
	var want []tline
	for i, o := range ops {
		var exp []tline
		switch o.kind {
		case 0:
			buf := []byte(o.p)
			n, err := tw.WriteLevel(o.lvl, buf)
			for k := range buf {
				buf[k] = '#' // zerolog's event buffers are pooled: the caller reuses its slice as soon as the call returns
			}
			if err != nil || n != len(o.p) {
				out.Violate("trigger-return", fmt.Sprintf("WriteLevel returned (%d,%v) for a %d-byte line", n, err, len(o.p)), map[string]interface{}{"check": "c15", "ops": fmt.Sprint(ops)})
			}
			exp = m.write(o.lvl, o.p)
		case 1:
			tw.Trigger()
			exp = m.trigger()
		case 2:
			tw.Close()
			m.close()
		}
		want = append(want, exp...)
		// compare prefix after each op (immediacy)
		bad := len(d.got) != len(want)
		for j := 0; !bad && j < len(want); j++ {
			if d.got[j].p != want[j].p || (!plain && d.got[j].lvl != want[j].lvl) {
				bad = true
			}
		}
		if bad {
			out.Violate("trigger-sequence", fmt.Sprintf("TriggerLevelWriter{Conditional:%d Trigger:%d plainDest=%v} after op %d of %v: destination has %s, specified %s", cl, tl, plain, i, ops, fmtLines(d.got), fmtLines(want)),
				map[string]interface{}{"check": "c15", "cl": cl, "tl": tl, "plain": plain, "ops": fmt.Sprint(ops)})
			return
		}
	}
}

func fmtLines(ls []tline) string {
	var sb strings.Builder
	sb.WriteString("[")
	for i, l := range ls {
		if i > 0 {
			sb.WriteString(" ")
		}
		if i == 80 {
			fmt.Fprintf(&sb, "... %d more", len(ls)-i)
			break
		}
		b := l.p
		if len(b) > 24 {
			b = b[:20] + fmt.Sprintf("...(%dB)", len(l.p))
		}
		fmt.Fprintf(&sb, "(%d,%q)", l.lvl, b)
	}
	return sb.String() + "]"
}

func c15(args []string) int {
	f := mustFlags(args)
	out := evid.New("C15")
	maxLen := 5
	if f.Thorough() {
		maxLen = 6
	}
	// op alphabet: 8 levels of write + trigger + close
	nsym := len(c15levels) + 2
	pairs := [][2]zerolog.Level{{0, 3}, {3, 0}, {1, 1}, {-1, 9}, {9, -1}, {-128, 127}, {127, -128}, {0, 1}, {11, 11}}
	idx := 0
	for L := 1; L <= maxLen; L++ {
		n := 1
		for i := 0; i < L; i++ {
			n *= nsym
		}
		for s := 0; s < n; s++ {
			idx++
			if !f.Mine(idx) {
				continue
			}
			r := rng.New(f.Seed, 0xc15, uint64(idx))
			ops := make([]top, L)
			x := s
			for i := 0; i < L; i++ {
				sym := x % nsym
				x /= nsym
				switch {
				case sym < len(c15levels):
					ops[i] = top{0, c15levels[sym], c15body(r, i)}
				case sym == len(c15levels):
					ops[i] = top{kind: 1}
				default:
					ops[i] = top{kind: 2}
				}
			}
			pr := pairs[r.Intn(len(pairs))]
			c15seq(out, pr[0], pr[1], r.Bool(), ops)
			if L == maxLen && s%9973 == 0 {
				out.Sample(fmt.Sprintf("Conditional=%d Trigger=%d ops=%v", pr[0], pr[1], ops), 4)
			}
			out.Case(uint64(idx), L >= 2)
			out.Count("exhaustive_histories", 1)
		}
	}
	// all (Conditional, Trigger) pairs over the level alphabet on every history of length <= 3
	for _, cl := range c15levels {
		for _, tl := range c15levels {
			n := nsym * nsym * nsym
			for s := 0; s < n; s++ {
				idx++
				if !f.Mine(idx) {
					continue
				}
				r := rng.New(f.Seed, 0xc15a, uint64(idx))
				ops := make([]top, 3)
				x := s
				for i := 0; i < 3; i++ {
					sym := x % nsym
					x /= nsym
					switch {
					case sym < len(c15levels):
						ops[i] = top{0, c15levels[sym], c15body(r, i)}
					case sym == len(c15levels):
						ops[i] = top{kind: 1}
					default:
						ops[i] = top{kind: 2}
					}
				}
				c15seq(out, cl, tl, r.Bool(), ops)
				out.Case(uint64(idx), true)
				out.Count("pair_grid_histories", 1)
			}
		}
	}
	// random long histories, all levels except 10
	nr := f.N(10000, 600000)
	for i := 0; i < nr; i++ {
		idx++
		if !f.Mine(idx) {
			continue
		}
		r := rng.New(f.Seed, 0xc15b, uint64(i))
		rl := func() zerolog.Level {
			for {
				l := zerolog.Level(r.Intn(256) - 128)
				if l != 10 {
					return l
				}
			}
		}
		cl, tl := rl(), rl()
		if r.Bool() {
			cl, tl = zerolog.Level(r.Intn(8)-1), zerolog.Level(r.Intn(8)-1)
		}
		n := 1 + r.Intn(60)
		ops := make([]top, n)
		for j := range ops {
			switch r.Intn(15) {
			case 0:
				ops[j] = top{kind: 1}
			case 1:
				ops[j] = top{kind: 2}
			default:
				l := rl()
				if r.Bool() {
					l = zerolog.Level(r.Intn(8) - 1)
				}
				ops[j] = top{0, l, c15body(r, j)}
			}
		}
		c15seq(out, cl, tl, r.Bool(), ops)
		out.Case(uint64(idx), true)
		out.Count("random_histories", 1)
	}
	if f.Shard == 0 {
		c15manyHeld(out)
	}
	out.Extra["exhaustive_history_length"] = maxLen
	out.Finish(f)
	return 0
}

// ---- concurrent ------------------------------------------------------------------------------------------

type c15in struct {
	kind int
	lvl  zerolog.Level
	id   int
}

func c15conc(args []string) int {
	f := mustFlags(args)
	out := evid.New("C15")
	out.Sub = "concurrent"
	runs := f.N(800, 12000)
	var clk int64
	for run := 0; run < runs; run++ {
		if !f.Mine(run) {
			continue
		}
		r := rng.New(f.Seed, 0xc15c, uint64(run))
		small := run%2 == 0
		G := 2 + r.Intn(5)
		K := 1 + r.Intn(5)
		if !small {
			G, K = 2+r.Intn(15), 20+r.Intn(200)
		}
		cl, tl := zerolog.Level(r.Intn(4)), zerolog.Level(r.Intn(5))
		if !small && r.Chance(1, 3) {
			tl = 5 // above every written level: only an explicit Trigger() releases, after many lines were held
		}
		d := &tdest{tag: small, cur: map[int64]*int64{}}
		if r.Chance(1, 2) {
			d.slow = 1 + r.Intn(3) // a slow destination: a flush of held lines takes long enough for other writers to arrive
			out.Count("concurrent_runs_with_slow_destination", 1)
		}
		tw := &zerolog.TriggerLevelWriter{Writer: tdestLW{d}, ConditionalLevel: cl, TriggerLevel: tl}
		var reg sync.WaitGroup
		reg.Add(G)
		type rec struct {
			in        c15in
			call, ret int64
			gid       int64
			from, to  int // index range in d.got observed (only meaningful via gids)
		}
		recs := make([][]rec, G)
		// pre-generate ops
		plan := make([][]c15in, G)
		id := 0
		for g := 0; g < G; g++ {
			for k := 0; k < K; k++ {
				id++
				in := c15in{0, zerolog.Level(r.Intn(6) - 1), id}
				switch r.Intn(25) {
				case 0:
					in.kind = 1
				case 1:
					in.kind = 2
				}
				plan[g] = append(plan[g], in)
			}
		}
		// line bodies: mostly tiny, some beyond the pooled 1 KiB buffer, a few beyond the 64 KiB reuse limit
		bodies := map[int]string{}
		var bodyMu sync.Mutex
		var body func(id int) string
		mkBody := func(id int) string {
			switch {
			case id%211 == 5:
				return fmt.Sprintf("{\"id\":%d,\"pad\":\"%s\"}\n", id, strings.Repeat("y", 70000))
			case id%7 == 3:
				return fmt.Sprintf("{\"id\":%d,\"pad\":\"%s\"}\n", id, strings.Repeat("x", 1100))
			}
			return fmt.Sprintf("{\"id\":%d}\n", id)
		}
		body = func(id int) string {
			bodyMu.Lock()
			defer bodyMu.Unlock()
			b, ok := bodies[id]
			if !ok {
				b = mkBody(id)
				bodies[id] = b
			}
			return b
		}
		var retBad atomic.Value
		// pool churn: other TriggerLevelWriters live and die at the same time (they share the buffer pool): what
		// they hold must never show up at this run's destination, nor the other way round
		bg := &tdest{}
		stopBG := make(chan struct{})
		bgDone := make(chan struct{})
		var bgTriggered int64
		go func() {
			defer close(bgDone)
			for k := 0; ; k++ {
				select {
				case <-stopBG:
					return
				default:
				}
				tw2 := &zerolog.TriggerLevelWriter{Writer: tdestLW{bg}, ConditionalLevel: 3, TriggerLevel: 5}
				for j := 0; j < 3; j++ {
					tw2.WriteLevel(0, []byte(fmt.Sprintf("bg-%d-%d %s\n", k, j, strings.Repeat("b", (k%5)*300))))
				}
				if k%2 == 0 {
					tw2.Trigger()
					atomic.AddInt64(&bgTriggered, 3)
				}
				tw2.Close()
				time.Sleep(40 * time.Microsecond)
			}
		}()
		var wg sync.WaitGroup
		start := make(chan struct{})
		for g := 0; g < G; g++ {
			wg.Add(1)
			go func(g int) {
				defer wg.Done()
				me := goid()
				var buf []byte
				var curOp int64 = -1
				d.mu.Lock()
				d.cur[me] = &curOp
				d.mu.Unlock()
				reg.Done()
				<-start
				for oi, in := range plan[g] {
					atomic.StoreInt64(&curOp, int64(oi))
					c := atomic.AddInt64(&clk, 1)
					switch in.kind {
					case 0:
						buf = append(buf[:0], body(in.id)...)
						n, err := tw.WriteLevel(in.lvl, buf)
						if n != len(buf) || err != nil {
							retBad.Store(fmt.Sprintf("WriteLevel returned (%d, %v) for a %d-byte line", n, err, len(buf)))
						}
						for k := range buf {
							buf[k] = '#' // the caller reuses its buffer at once
						}
					case 1:
						tw.Trigger()
					case 2:
						tw.Close()
					}
					rt := atomic.AddInt64(&clk, 1)
					recs[g] = append(recs[g], rec{in: in, call: c, ret: rt, gid: me})
				}
			}(g)
		}
		reg.Wait()
		close(start)
		wg.Wait()
		close(stopBG)
		<-bgDone
		if v := retBad.Load(); v != nil {
			out.Violate("trigger-return", v.(string), map[string]interface{}{"check": "c15-conc", "run": run})
		}
		for _, l := range bg.got {
			if !strings.HasPrefix(l.p, "bg-") || !strings.HasSuffix(l.p, "b\n") && !strings.HasSuffix(l.p, " \n") {
				out.Violate("conc-foreign-line", fmt.Sprintf("a TriggerLevelWriter living next to this run received the line %q", clipb([]byte(l.p))), map[string]interface{}{"check": "c15-conc", "run": run})
				break
			}
		}
		if int64(len(bg.got)) != atomic.LoadInt64(&bgTriggered) {
			out.Violate("conc-foreign-count", fmt.Sprintf("the short-lived TriggerLevelWriters next to this run released %d lines, their histories specify %d", len(bg.got), bgTriggered), map[string]interface{}{"check": "c15-conc", "run": run})
		}
		out.Count("pool_churn_writers_next_to_concurrent_runs", atomic.LoadInt64(&bgTriggered)/3*2)
		// global invariants
		seen := map[int]int{}
		lvlOf := map[int]zerolog.Level{}
		for g := range plan {
			for _, in := range plan[g] {
				lvlOf[in.id] = in.lvl
			}
		}
		hasClose := false
		for g := range plan {
			for _, in := range plan[g] {
				if in.kind == 2 {
					hasClose = true
				}
			}
		}
		for _, l := range d.got {
			var lid int
			if _, err := fmt.Sscanf(l.p, "{\"id\":%d", &lid); err != nil || l.p != body(lid) {
				out.Violate("conc-altered", fmt.Sprintf("destination received an altered (or foreign) line %q", clipb([]byte(l.p))), map[string]interface{}{"check": "c15-conc", "run": run})
				continue
			}
			seen[lid]++
			if seen[lid] > 1 {
				out.Violate("conc-duplicate", fmt.Sprintf("line id %d delivered twice (G=%d K=%d cl=%d tl=%d)", lid, G, K, cl, tl), map[string]interface{}{"check": "c15-conc", "run": run})
			}
			if lvlOf[lid] != l.lvl {
				out.Violate("conc-level", fmt.Sprintf("line id %d delivered with level %d, written with %d", lid, l.lvl, lvlOf[lid]), map[string]interface{}{"check": "c15-conc", "run": run})
			}
		}
		for g := range plan {
			for _, in := range plan[g] {
				if in.kind == 0 && in.lvl > cl && seen[in.id] != 1 {
					out.Violate("conc-lost", fmt.Sprintf("line id %d (level %d above ConditionalLevel %d) delivered %d times", in.id, in.lvl, cl, seen[in.id]), map[string]interface{}{"check": "c15-conc", "run": run})
				}
			}
		}
		// conservation of the holdable lines too, where the history allows a verdict: without any Close every line
		// is delivered exactly once as soon as the writer was released; if it never was, no holdable line shows up
		released := false
		for g := range plan {
			for _, in := range plan[g] {
				if in.kind == 1 || (in.kind == 0 && in.lvl >= tl) {
					released = true
				}
			}
		}
		for g := range plan {
			for _, in := range plan[g] {
				if in.kind != 0 || in.lvl > cl {
					continue
				}
				switch {
				case released && !hasClose && seen[in.id] != 1:
					out.Violate("conc-lost", fmt.Sprintf("held line id %d (level %d) delivered %d times although the writer was released and never closed (G=%d K=%d cl=%d tl=%d)", in.id, in.lvl, seen[in.id], G, K, cl, tl), map[string]interface{}{"check": "c15-conc", "run": run})
				case !released && seen[in.id] != 0:
					out.Violate("conc-released-without-trigger", fmt.Sprintf("held line id %d (level %d) was delivered although nothing ever released the writer (cl=%d tl=%d)", in.id, in.lvl, cl, tl), map[string]interface{}{"check": "c15-conc", "run": run})
				}
			}
		}
		if released && !hasClose {
			out.Count("concurrent_runs_with_full_conservation_verdict", 1)
		}
		// real-time order: if the write of line a had RETURNED before the write of line b was CALLED, a can never
		// come after b at the destination - except when a is holdable (level <= ConditionalLevel) and b is not
		// (b passes at once while a may still be held). Every linearization keeps the real-time order, and the
		// sequential behaviour keeps write order within the held lines, within the passing lines, from a
		// passing line to anything later, and for everything after the release.
		{
			pos := map[int]int{}
			for i, l := range d.got {
				var lid int
				if _, err := fmt.Sscanf(l.p, "{\"id\":%d", &lid); err == nil {
					if _, dup := pos[lid]; !dup {
						pos[lid] = i
					}
				}
			}
			type tev struct {
				t    int64
				call bool
				id   int
				low  bool
			}
			var evs []tev
			for g := range recs {
				for _, rc := range recs[g] {
					if rc.in.kind != 0 {
						continue
					}
					if _, ok := pos[rc.in.id]; !ok {
						continue
					}
					evs = append(evs, tev{rc.call, true, rc.in.id, rc.in.lvl <= cl}, tev{rc.ret, false, rc.in.id, rc.in.lvl <= cl})
				}
			}
			sort.Slice(evs, func(i, j int) bool { return evs[i].t < evs[j].t })
			maxPos, maxID := [2]int{-1, -1}, [2]int{}
			pairs := int64(0)
		sweep:
			for _, e := range evs {
				k := 0
				if e.low {
					k = 1
				}
				if !e.call {
					if pos[e.id] > maxPos[k] {
						maxPos[k], maxID[k] = pos[e.id], e.id
					}
					continue
				}
				for c := 0; c < 2; c++ { // c=0: earlier passing lines bind everybody; c=1: earlier holdable lines bind holdable lines
					if c == 1 && !e.low {
						continue
					}
					if maxPos[c] >= 0 {
						pairs++
					}
					if pos[e.id] < maxPos[c] {
						out.Violate("conc-overtaken", fmt.Sprintf("line id %d reached the destination (position %d) BEFORE line id %d (position %d) although the write of %d had returned before the write of %d was called and %d could not legitimately be held longer than %d (G=%d K=%d cl=%d tl=%d, destination sequence %s)",
							e.id, pos[e.id], maxID[c], maxPos[c], maxID[c], e.id, maxID[c], e.id, G, K, cl, tl, fmtLines(d.got)), map[string]interface{}{"check": "c15-conc", "run": run})
						break sweep
					}
				}
			}
			out.Count("concurrent_realtime_order_constraints_checked", pairs)
		}
		if small {
			// porcupine: output of each op = ids the destination received on that goroutine during the call.
			// Destination writes are made synchronously by the calling goroutine, so gid identifies the op's
			// goroutine; within a goroutine ops are sequential, so split that goroutine's deliveries by op using
			// the model-free rule: a delivery belongs to the earliest op of its goroutine that is not yet "closed"
			// — recorded here by snapshotting len(d.got) is impossible without perturbing; instead we attribute by
			// goroutine and by order, then let the model decide op by op.
			// output of each op = ids the destination received while the calling goroutine was executing
			// that op (the destination is invoked synchronously by the caller; it looks the caller's
			// current op index up by goroutine id).
			type gk struct {
				g  int64
				ix int64
			}
			perOp := map[gk][]int{}
			for i, l := range d.got {
				var lid int
				fmt.Sscanf(l.p, "{\"id\":%d", &lid)
				k := gk{d.gids[i], d.opix[i]}
				perOp[k] = append(perOp[k], lid)
			}
			var all []porcupine.Operation
			for g := 0; g < G; g++ {
				for oi, rc := range recs[g] {
					outIds := perOp[gk{rc.gid, int64(oi)}]
					all = append(all, porcupine.Operation{ClientId: g, Input: rc.in, Call: rc.call, Output: fmt.Sprint(outIds), Return: rc.ret})
				}
			}
			model := porcupine.Model{
				Init: func() interface{} { return "F|" },
				Step: func(st, inp, outp interface{}) (bool, interface{}) {
					s := st.(string)
					trig := s[0] == 'T'
					held := s[2:]
					in := inp.(c15in)
					var exp []int
					parse := func() {
						if held != "" {
							for _, x := range strings.Split(held, ",") {
								v, _ := strconv.Atoi(x)
								exp = append(exp, v)
							}
						}
					}
					switch in.kind {
					case 0:
						if !trig && in.lvl >= tl {
							trig = true
							parse()
							held = ""
						}
						if !trig && in.lvl <= cl {
							if held != "" {
								held += ","
							}
							held += strconv.Itoa(in.id)
						} else {
							exp = append(exp, in.id)
						}
					case 1:
						if !trig {
							trig = true
							parse()
							held = ""
						}
					case 2:
						held = ""
					}
					ns := "F|" + held
					if trig {
						ns = "T|" + held
					}
					return outp.(string) == fmt.Sprint(exp), ns
				},
			}
			res := porcupine.CheckOperationsTimeout(model, all, 10*time.Second)
			switch res {
			case porcupine.Illegal:
				out.Violate("conc-linearizability", fmt.Sprintf("TriggerLevelWriter{Conditional:%d Trigger:%d}: concurrent history of %d ops has no linearization matching the destination sequence %s", cl, tl, len(all), fmtLines(d.got)),
					map[string]interface{}{"check": "c15-conc", "run": run, "history": fmt.Sprint(all)})
			case porcupine.Unknown:
				out.Inconc(fmt.Sprintf("porcupine timeout run %d", run))
			default:
				out.Count("porcupine_ok", 1)
			}
			if run == 0 {
				out.Sample(map[string]interface{}{"cl": cl, "tl": tl, "history": fmt.Sprint(all), "destination": fmtLines(d.got)}, 2)
			}
		}
		out.Count("concurrent_ops", int64(G*K))
		var hb bytes.Buffer
		for _, l := range d.got {
			hb.WriteString(l.p)
		}
		out.Case(rng.Hash64(hb.Bytes())^uint64(run), true)
	}
	out.Finish(f)
	return 0
}

// c15manyHeld: far more held lines than any 16-bit counter holds (round 16): every one of them is released by the
// trigger, in order, before the triggering line.
func c15manyHeld(out *evid.Out) {
	for _, nHeld := range []int{65535, 65536, 65538, 140000} {
		w := &evBufW{}
		tw := &zerolog.TriggerLevelWriter{Writer: zerolog.LevelWriterAdapter{Writer: w}, ConditionalLevel: zerolog.DebugLevel, TriggerLevel: zerolog.ErrorLevel}
		for i := 0; i < nHeld; i++ {
			tw.WriteLevel(zerolog.DebugLevel, []byte(fmt.Sprintf("h%d\n", i)))
		}
		if len(w.evs) != 0 {
			out.Violate("many-held:early", fmt.Sprintf("%d lines at the conditional level reached the destination before the trigger", len(w.evs)), map[string]interface{}{"check": "c15", "held": nHeld})
		}
		tw.WriteLevel(zerolog.ErrorLevel, []byte("TRIGGER\n"))
		all := bytes.Join(w.evs, nil)
		lines := bytes.Split(bytes.TrimSuffix(all, []byte("\n")), []byte("\n"))
		ok := len(lines) == nHeld+1 && string(lines[nHeld]) == "TRIGGER"
		for i := 0; ok && i < nHeld; i++ {
			ok = string(lines[i]) == fmt.Sprintf("h%d", i)
		}
		if !ok {
			out.Violate("many-held:released", fmt.Sprintf("%d held lines and the triggering line: the destination received %d lines (specified: all held lines in order, then the triggering line)", nHeld, len(lines)),
				map[string]interface{}{"check": "c15", "held": nHeld})
		}
		tw.Close()
		out.Count("many_held_lines_runs", 1)
		out.Evaluations++
	}
}
