package main

import (
	"fmt"
	"io"
	"os"
	"regexp"
	"strings"

	"github.com/rs/zerolog"
	"github.com/rs/zerolog/diode/verifh/evid"
)

func mustFlags(args []string) *evid.Flags {
	f, fs, _ := evid.ParseFlags(args)
	if err := fs.Parse(args); err != nil {
		os.Exit(2)
	}
	return f
}

func init() {
	commands["merge-hashes"] = func(args []string) int {
		n, err := evid.MergeHashFiles(args)
		if err != nil {
			fmt.Fprintln(os.Stderr, err)
			return 2
		}
		fmt.Println(n)
		return 0
	}
}

type staleArr struct{}

func (staleArr) MarshalZerologArray(a *zerolog.Array) { a.Str("stale-m").Int(9) }

type staleObj struct{}

func (staleObj) MarshalZerologObject(e *zerolog.Event) { e.Str("stale-k", "stale-v") }

var histFiltered = zerolog.New(io.Discard).Level(zerolog.ErrorLevel)

// poolHistory: what the process did before the case under test - events that were filtered out, discarded or never
// finished, each handed arrays, dictionaries and objects with contents of their own. Events, arrays and
// dictionaries are pooled: none of this may show in what is logged next.
func poolHistory(idx int) {
	l := histFiltered
	switch idx / 2 % 6 {
	case 0:
		l.Debug().Array("a", zerolog.Arr().Str("stale").Int(7)).Dict("d", zerolog.Dict().Str("stale", "x")).Msg("filtered")
	case 1:
		l.Error().Array("a", zerolog.Arr().Str("stale").Int(7)).Dict("d", zerolog.Dict().Str("stale", "x")).Discard().Msg("discarded")
	case 2:
		l.Debug().Array("a", staleArr{}).Object("o", staleObj{}).EmbedObject(staleObj{}).Interface("i", staleObj{}).Send()
	case 3:
		_ = l.With().Array("a", zerolog.Arr().Str("stale")).Dict("d", zerolog.Dict().Int("stale", 1)).Logger()
	case 4:
		l.Debug().Array("a", zerolog.Arr().Dict(zerolog.Dict().Str("stale", "y")).Object(staleObj{})).Fields(map[string]interface{}{"stale": 1}).Msg("filtered")
	default:
		func() {
			defer func() { recover() }()
			l.Panic().Array("a", zerolog.Arr().Str("stale")).Msg("stale-panic")
		}()
	}
}

func plainASCII(b []byte) bool {
	for _, c := range b {
		if c >= 0x7f || c == '\\' {
			return false
		}
	}
	return true
}

var reOffset = regexp.MustCompile(`^json: offset \d+: `)
var reData = regexp.MustCompile("(0x[0-9a-f]+|'.*'|\".*\"|[0-9]+)")

var reList = regexp.MustCompile(`\[[^\]]*\]?`)
var reMember = regexp.MustCompile(`member \S+ \([^)]*\)`)

func sigOf(prefix, msg string) string {
	// strip offsets / quoted data so that the same structural reason gives the same signature
	msg = reOffset.ReplaceAllString(msg, "")
	if i := strings.Index(msg, ", got "); i >= 0 {
		msg = msg[:i]
	}
	msg = reData.ReplaceAllString(msg, "_")
	msg = reList.ReplaceAllString(msg, "[_]")
	msg = reMember.ReplaceAllString(msg, "member _ (_)")
	if len(msg) > 80 {
		msg = msg[:80]
	}
	return prefix + ":" + strings.TrimSpace(msg)
}
