package main

import (
	"fmt"
	"os"
	"regexp"
	"strings"

	"github.com/rs/zerolog/diode/verifh/evid"
	"github.com/rs/zerolog/diode/verifh/gen"
)

func mustFlags(args []string) *evid.Flags {
	f, fs, _ := evid.ParseFlags(args)
	if err := fs.Parse(args); err != nil {
		os.Exit(2)
	}
	return f
}

func init() {
	commands["merge-hashes"] = func(args []string) int {
		n, err := evid.MergeHashFiles(args)
		if err != nil {
			fmt.Fprintln(os.Stderr, err)
			return 2
		}
		fmt.Println(n)
		return 0
	}
}

// poolHistory: what the goroutine did before the case under test (see gen.History).
func poolHistory(idx int) { gen.History(1 + idx/2%gen.NHistories) }

func plainASCII(b []byte) bool {
	for _, c := range b {
		if c >= 0x7f || c == '\\' {
			return false
		}
	}
	return true
}

var reOffset = regexp.MustCompile(`^json: offset \d+: `)
var reData = regexp.MustCompile("(0x[0-9a-f]+|'.*'|\".*\"|[0-9]+)")

var reList = regexp.MustCompile(`\[[^\]]*\]?`)
var reMember = regexp.MustCompile(`member \S+ \([^)]*\)`)

func sigOf(prefix, msg string) string {
	// strip offsets / quoted data so that the same structural reason gives the same signature
	msg = reOffset.ReplaceAllString(msg, "")
	if i := strings.Index(msg, ", got "); i >= 0 {
		msg = msg[:i]
	}
	msg = reData.ReplaceAllString(msg, "_")
	msg = reList.ReplaceAllString(msg, "[_]")
	msg = reMember.ReplaceAllString(msg, "member _ (_)")
	if len(msg) > 80 {
		msg = msg[:80]
	}
	return prefix + ":" + strings.TrimSpace(msg)
}
