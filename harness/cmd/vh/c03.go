package main

import (
	"fmt"

	"github.com/rs/zerolog/diode/verifh/evid"
	"github.com/rs/zerolog/diode/verifh/gen"
	"github.com/rs/zerolog/diode/verifh/jsonv"
	"github.com/rs/zerolog/diode/verifh/rng"
)

func init() { commands["c03"] = c03 }

// checkProgram runs a modelled program and compares every event and hook log with the model.
// It returns the number of events written and whether a violation was recorded.
func checkProgram(out *evid.Out, x *gen.Exec, p *gen.Program, check string, f *evid.Flags, idx int, checkHooks bool) (nw int, h uint64) {
	restore := p.S.Apply()
	res := x.Run(p)
	restore()
	h = rng.HashStr(p.S.String())
	rep := func(ei int, extra map[string]interface{}) map[string]interface{} {
		m := map[string]interface{}{"check": check, "seed": f.Seed, "tier": f.Tier, "index": idx, "event": ei, "program": p.Describe()}
		for k, v := range extra {
			m[k] = v
		}
		return m
	}
	if res.Panic != nil {
		out.Violate(sigOf("panic", fmt.Sprint(res.Panic)), fmt.Sprintf("panic %v", res.Panic), rep(-1, nil))
		return
	}
	for ei := range p.Events {
		ex := &p.Expect[ei]
		ws := res.Writes[ei]
		for _, w := range ws {
			h = h*0x100000001b3 ^ rng.Hash64(w.P)
		}
		nw += len(ws)
		if ex.Written && len(ws) != 1 {
			out.Violate("writes:expected-one", fmt.Sprintf("event %d: expected exactly one write, got %d", ei, len(ws)), rep(ei, nil))
			continue
		}
		if !ex.Written && len(ws) != 0 {
			out.Violate("writes:expected-none", fmt.Sprintf("event %d (level %d, enabled=%v, discarded=%v): expected no write, got %d: %q", ei, ex.Level, ex.Enabled, ex.Discarded, len(ws), clipb(ws[0].P)), rep(ei, nil))
			continue
		}
		if checkHooks {
			hl := res.Hooks[ei]
			if len(hl) != len(ex.Hooks) {
				out.Violate("hooks:count", fmt.Sprintf("event %d: expected %d hook runs %v, got %d %v", ei, len(ex.Hooks), ex.Hooks, len(hl), hl), rep(ei, nil))
			} else {
				discarded := false
				for i := range hl {
					if hl[i].ID != ex.Hooks[i].ID {
						out.Violate("hooks:order", fmt.Sprintf("event %d: hook run %d: expected hook #%d, got #%d", ei, i, ex.Hooks[i].ID, hl[i].ID), rep(ei, nil))
						break
					}
					if !discarded && (hl[i].Level != ex.Hooks[i].Level || hl[i].Msg != ex.Hooks[i].Msg) {
						out.Violate("hooks:args", fmt.Sprintf("event %d: hook #%d got (level %d, msg %q), expected (level %d, msg %q)", ei, hl[i].ID, hl[i].Level, hl[i].Msg, ex.Hooks[i].Level, ex.Hooks[i].Msg), rep(ei, nil))
						break
					}
					if hl[i].Ctx != ex.Hooks[i].Ctx {
						out.Violate("hooks:goctx", fmt.Sprintf("event %d: hook #%d read the Go context value %q through GetCtx, the logger / event was given %q", ei, hl[i].ID, hl[i].Ctx, ex.Hooks[i].Ctx), rep(ei, nil))
						break
					}
					for _, st := range p.Chain {
						for _, hs := range st.Hooks {
							if hs.ID == hl[i].ID && hs.Kind == 1 {
								discarded = true
							}
						}
					}
				}
			}
		}
		if !ex.Written {
			continue
		}
		w := ws[0]
		if !w.ByLW || w.Level != ex.Level {
			out.Violate("writelevel", fmt.Sprintf("event %d: WriteLevel got level %d (byLevelWriter=%v), event level %d", ei, w.Level, w.ByLW, ex.Level), rep(ei, nil))
		}
		obj, err := jsonv.ParseLine(w.P)
		if err != nil {
			out.Violate(sigOf("invalid", err.Error()), fmt.Sprintf("event %d is not one well-formed JSON line: %v: %q", ei, err, clipb(w.P)), rep(ei, map[string]interface{}{"bytes": fmt.Sprintf("%q", clipb(w.P))}))
			continue
		}
		if err := gen.MatchFields(obj, ex.Fields, &p.S); err != nil {
			out.Violate(sigOf("mismatch", err.Error()), fmt.Sprintf("event %d differs from the specified content: %v; bytes %q", ei, err, clipb(w.P)),
				rep(ei, map[string]interface{}{"bytes": fmt.Sprintf("%q", clipb(w.P)), "error": err.Error()}))
		}
	}
	return
}

func c03Case(f *evid.Flags, idx int, hits *[9]map[string]int) *gen.Program {
	r := rng.New(f.Seed, 0xc03, uint64(idx))
	g := &gen.G{R: r, Hits: hits}
	g.V = gen.V{R: r}
	g.P = gen.Profile{Modelled: true, UniqueKeys: true, MaxDepth: 3, UpdateAnywhere: true}
	st := g.RandomSettings(idx%3 == 0)
	g.S = &st
	maxChain := 6
	if f.Thorough() {
		maxChain = 12
	}
	return g.GenProgram(maxChain, 4, 6)
}

func c03(args []string) int {
	f := mustFlags(args)
	out := evid.New("C03")
	total := f.N(150000, 10000000)
	var hits [9]map[string]int
	x := &gen.Exec{}
	for idx := 0; idx < total; idx++ {
		if !f.Mine(idx) {
			continue
		}
		p := c03Case(f, idx, &hits)
		nw, h := checkProgram(out, x, p, "c03", f, idx, true)
		nh, nd := 0, 0
		for _, st := range p.Chain {
			nh += len(st.Hooks)
			for _, hs := range st.Hooks {
				if hs.Kind == 1 {
					nd++
				}
			}
			out.Count("step_"+st.Kind, 1)
		}
		out.Count("events_written", int64(nw))
		out.Count("events_issued", int64(len(p.Events)))
		out.Count("hooks_attached", int64(nh))
		out.Count("discard_hooks", int64(nd))
		out.Case(h, nw > 0 && len(p.Chain) >= 2 && nh > 0)
		if idx%(total/6+1) == 0 {
			out.Sample(map[string]interface{}{"index": idx, "program": p.Describe()}, 6)
		}
	}
	out.Matrix = map[string]map[string]int{}
	for fe, m := range hits {
		if m != nil {
			out.Matrix[gen.FeNames[fe]] = m
		}
	}
	out.Finish(f)
	return 0
}
