//go:build !race

package main

func isRace() bool { return false }
