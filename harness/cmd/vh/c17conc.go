package main

import (
	"time"
	"os"
	"bytes"
	"fmt"
	"runtime"
	"sync"

	"github.com/rs/zerolog/diode/verifh/evid"
	"github.com/rs/zerolog/diode/verifh/rng"
	"github.com/rs/zerolog/internal/cbor"
)

func init() { commands["c17-conc"] = c17conc }

// stallW hands the processor over inside every Write: another goroutine's decode runs while this one is in the
// middle of its own.
type stallW struct {
	b bytes.Buffer
	k int
}

func (w *stallW) Write(p []byte) (int, error) {
	w.k++
	if w.k%3 == 0 {
		runtime.Gosched()
	}
	return w.b.Write(p)
}

// c17conc: the decoder's output is a function of its input alone. G goroutines decode their own valid streams (own
// reader, own destination, nothing shared by the caller) at the same time; every result must equal the result of the
// same decode done alone. Also run under the race detector.
func c17conc(args []string) int {
	f := mustFlags(args)
	out := evid.New("C17")
	out.Sub = "concurrent"
	rounds := f.N(60, 1500)
	g := &sgen{}
	// watchdog: a decode that does not come back leaves its input as a witness and ends the shard with a suspicion
	// (decided afterwards by run.py under a CPU-time limit, like in the main C17 stage)
	var curMu sync.Mutex
	var cur []byte
	var curSince time.Time
	setCur := func(b []byte) {
		curMu.Lock()
		cur, curSince = b, time.Now()
		curMu.Unlock()
	}
	wp := fmt.Sprintf("/verif/build/c17.current.conc.%s.%d", map[bool]string{false: "plain", true: "race"}[isRace()], f.Shard)
	go func() {
		for {
			time.Sleep(time.Second)
			curMu.Lock()
			b, since := cur, curSince
			curMu.Unlock()
			if b != nil && time.Since(since) > 60*time.Second {
				hdr := []byte{byte(len(b)), byte(len(b) >> 8), byte(len(b) >> 16), byte(len(b) >> 24), 0, 0, 0, 0}
				os.WriteFile(wp, append(hdr, b...), 0o644)
				fmt.Printf("C17-SUSPECT-TIMEOUT (concurrent stage) %d-byte stream\n", len(b))
				out.Inconc(fmt.Sprintf("suspect-timeout: decoding a %d-byte valid stream has not come back for 60 s; witness kept at %s", len(b), wp))
				out.Extra["suspect_witness"] = wp
				out.Finish(f)
				os.Exit(0)
			}
		}
	}()
	for round := 0; round < rounds; round++ {
		if !f.Mine(round) {
			continue
		}
		r := rng.New(f.Seed, 0xc17c, uint64(round))
		g.r = r
		G := []int{2, 4, 8, 16}[r.Intn(4)]
		procs := []int{1, 2, 16}[r.Intn(3)]
		old := runtime.GOMAXPROCS(procs)
		streams := make([][]byte, G)
		solo := make([][]byte, G)
		soloErr := make([]bool, G)
		soloStr := make([]string, G)
		for i := range streams {
			var st []byte
			for k, n := 0, 1+r.Intn(4); k < n; k++ {
				st = g.event(st)
				// integers of every width, so that neighbouring decodes differ in their digits
				e := g.enc
				st = e.AppendBeginMarker(st)
				st = e.AppendUint64(e.AppendKey(st, "u"), r.U64()>>uint(r.Intn(64)))
				st = e.AppendInt64(e.AppendKey(st, "n"), -int64(r.U64()>>uint(1+r.Intn(63))))
				st = e.AppendEndMarker(st)
			}
			if r.Chance(1, 5) && len(st) > 2 {
				st = st[:len(st)-1-r.Intn(len(st)/2)] // a truncated stream: prefix output + error
			}
			streams[i] = st
			setCur(st)
			var ob bytes.Buffer
			err := cbor.Cbor2JsonManyObjects(bytes.NewReader(st), &ob)
			solo[i], soloErr[i] = append([]byte{}, ob.Bytes()...), err != nil
			soloStr[i] = func() (s string) {
				defer func() {
					if x := recover(); x != nil {
						s = "<panic>"
					}
				}()
				return cbor.DecodeIfBinaryToString(st)
			}()
		}
		reps := 20 + r.Intn(60)
		var wg sync.WaitGroup
		var mu sync.Mutex
		bad := ""
		for i := 0; i < G; i++ {
			wg.Add(1)
			go func(i int) {
				defer wg.Done()
				for k := 0; k < reps; k++ {
					var got []byte
					var gerr bool
					how := "Cbor2JsonManyObjects"
					switch (i + k) % 3 {
					case 0:
						var ob bytes.Buffer
						gerr = cbor.Cbor2JsonManyObjects(bytes.NewReader(streams[i]), &ob) != nil
						got = ob.Bytes()
					case 1:
						how = "Cbor2JsonManyObjects(destination that yields)"
						w := &stallW{}
						gerr = cbor.Cbor2JsonManyObjects(bytes.NewReader(streams[i]), w) != nil
						got = w.b.Bytes()
					default:
						how = "DecodeIfBinaryToString"
						s := func() (s string) {
							defer func() {
								if x := recover(); x != nil {
									s = "<panic>"
								}
							}()
							return cbor.DecodeIfBinaryToString(streams[i])
						}()
						if s != soloStr[i] {
							mu.Lock()
							if bad == "" {
								bad = fmt.Sprintf("%s of a %d-byte stream gives %q next to %d other decodes, %q alone", how, len(streams[i]), clipb([]byte(s)), G-1, clipb([]byte(soloStr[i])))
							}
							mu.Unlock()
						}
						continue
					}
					if gerr != soloErr[i] || !bytes.Equal(got, solo[i]) {
						mu.Lock()
						if bad == "" {
							bad = fmt.Sprintf("%s of a %d-byte stream gives (%q, error=%v) next to %d other decodes, (%q, error=%v) alone", how, len(streams[i]), clipb(got), gerr, G-1, clipb(solo[i]), soloErr[i])
						}
						mu.Unlock()
					}
				}
			}(i)
		}
		wg.Wait()
		setCur(nil)
		runtime.GOMAXPROCS(old)
		if bad != "" {
			out.Violate("concurrent-decode-differs", bad, map[string]interface{}{"check": "c17-conc", "seed": f.Seed, "tier": f.Tier, "round": round, "goroutines": G, "gomaxprocs": procs})
		}
		out.Evaluations += int64(G * reps)
		out.Count("concurrent_decodes", int64(G*reps))
		out.Count("concurrent_rounds", 1)
		h := uint64(round)
		for _, st := range streams {
			h = h*0x100000001b3 ^ rng.Hash64(st)
		}
		out.Case(h, true)
	}
	out.Finish(f)
	return 0
}
