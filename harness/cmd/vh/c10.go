package main

import (
	"bufio"
	"fmt"
	"io"
	"os"
	"os/exec"
	"sort"
	"strings"
	"sync/atomic"
	"time"

	"github.com/anishathalye/porcupine"
	"github.com/rs/zerolog"
	"github.com/rs/zerolog/diode"
	"github.com/rs/zerolog/diode/verifh/evid"
	"github.com/rs/zerolog/diode/verifh/rng"
	zlog "github.com/rs/zerolog/log"
)

func init() {
	commands["c10"] = func(a []string) int { return diodeCheck("C10", a) }
	commands["c11"] = func(a []string) int { return diodeCheck("C11", a) }
	commands["c12"] = func(a []string) int { return diodeCheck("C12", a) }
	commands["c11-fatal-child"] = c11FatalChild
}

// randomCfg draws the idx-th noisy configuration.
func randomCfg(prop string, f *evid.Flags, idx int) (*dCfg, *rng.R) {
	r := rng.New(f.Seed, 0xd10de, uint64(idx))
	c := &dCfg{Name: fmt.Sprintf("noise#%d", idx)}
	maxP := 4
	if f.Thorough() {
		maxP = 8
	}
	c.P = 1 + r.Intn(maxP)
	c.W = 1 + r.Intn(6)
	c.Size = []int{1, 2, 3, 4, 8, 1, 2, 4, 16, 100}[r.Intn(10)]
	if c.Size >= 16 && r.Bool() {
		c.W = 10 + r.Intn(40) // enough writes to fill and lap a larger ring
	}
	if r.Chance(1, 3) {
		c.Poll = time.Duration(20+r.Intn(80)) * time.Microsecond
	}
	c.NoisePlan = make([]int, len(dPoints))
	if !r.Chance(1, 8) {
		for i := range c.NoisePlan {
			c.NoisePlan[i] = []int{0, 0, 1, 2, 4, 7}[r.Intn(6)]
		}
	}
	c.SlowW = r.Intn(3)
	c.Pad = []int{0, 0, 0, 1, 2, 3}[r.Intn(6)]
	c.FaultW = []int{0, 0, 0, 1, 2}[r.Intn(5)]
	switch prop {
	case "C10":
		c.Block = r.Chance(1, 5)
		c.NilAlerter = r.Chance(1, 8)
		c.LateWrites = r.Chance(1, 6)
	case "C11":
		c.CloseEarly = r.Chance(1, 2)
		c.Paced = r.Chance(1, 5)
		// two goroutines call Close at once (regular shutdown and a Fatal, say): whichever call returns first, the
		// backlog has been delivered or reported by then
		c.CloseTwice = []int{0, 0, 0, 2}[r.Intn(4)]
	case "C12":
		c.Paced = r.Chance(1, 6)
		c.LateWrites = r.Chance(1, 10)
		c.CloseTwice = []int{0, 0, 0, 0, 1, 1, 2, 2}[r.Intn(8)]
	}
	if !c.NilAlerter {
		c.ReAlerter = r.Chance(1, 6)
	}
	c.Procs = []int{0, 0, 0, 0, 1, 2}[r.Intn(6)]
	if idx%8 == 5 {
		c.EmptyAt = 1 + (idx/8)%c.W // one zero-length message somewhere in producer 0's sequence
	}
	if idx%32 == 17 {
		c.Poll = time.Duration(1 + idx/32%9) // a poll interval of a few nanoseconds
	}
	if idx%16 == 9 {
		c.W = 0 // nothing is ever written: Close must return all the same
		c.Paced, c.LateWrites = false, false
	}
	if isRace() && prop != "C12" && idx%2 == 1 {
		c.Hookless = true
		c.NoisePlan = nil
	}
	if c.Paced && c.P >= c.Size {
		c.P = c.Size - 1
		if c.P < 1 {
			c.P, c.Size = 1, 2
		}
	}
	return c, r
}

// sweepCfg: a single directed pause of the k-th arrival at point pt until the other side made a step.
func sweepCfg(pt int, k int, poll bool, size int) *dCfg {
	c := &dCfg{Name: fmt.Sprintf("sweep[%s#%d]", dPoints[pt], k), P: 2, W: 2, Size: size}
	if poll {
		c.Poll = 50 * time.Microsecond
	}
	c.Pauses = []*dPause{{Pt: pt, K: k, Timeout: 3 * time.Millisecond, OtherRole: true, armed: make(chan struct{}), release: make(chan struct{})}}
	return c
}

// holdCfg: the k-th arrival of the consumer at point pt is held until every producer call has returned, so that
// whole laps pass while the consumer sits there (closeEarly: Close is then called at once).
func holdCfg(pt int, k int, poll bool, size int, closeEarly bool) *dCfg {
	c := &dCfg{Name: fmt.Sprintf("hold-across-laps[%s#%d]", dPoints[pt], k), P: 2, W: 2*size + 1, Size: size, CloseEarly: closeEarly}
	if poll {
		c.Poll = 50 * time.Microsecond
	}
	c.Pauses = []*dPause{{Pt: pt, K: k, Timeout: 300 * time.Millisecond, UntilJoin: true, armed: make(chan struct{}), release: make(chan struct{})}}
	return c
}

func waitArmed(p *dPause, d time.Duration) bool {
	select {
	case <-p.armed:
		return true
	case <-time.After(d):
		return false
	}
}

func (p *dPause) Release(r *dRun) {
	r.mu.Lock()
	if !p.released {
		p.released = true
		close(p.release)
	}
	r.mu.Unlock()
}

func waitDelivered(r *dRun, n int64, d time.Duration) bool {
	dl := time.Now().Add(d)
	for atomic.LoadInt64(&r.deliveredN) < n {
		if time.Now().After(dl) {
			return false
		}
		time.Sleep(50 * time.Microsecond)
	}
	return true
}

// ---- directed scenarios ---------------------------------------------------------------------------------

type scenario struct {
	name  string
	props string // which checks run it
	mk    func(poll bool) *dCfg
	modes []bool // poll modes to run
}

func directedScenarios() []scenario {
	long := 300 * time.Millisecond
	return []scenario{
		{"drain-race: Close between the consumer's empty TryNext and its done check", "C11 C12", func(poll bool) *dCfg {
			c := &dCfg{Name: "drain-race", P: 1, W: 1, Size: 4}
			if poll {
				c.Poll = 200 * time.Microsecond
			}
			hold := newPause("m2o.next.swapped.nil", 1, long, false, "diode.close.cancelled")
			c.Pauses = []*dPause{hold}
			c.Script = func(r *dRun) {
				if !waitArmed(hold, time.Second) {
					return
				}
				r.write(0, 0)
				r.doClose(3 * time.Second)
			}
			return c
		}, []bool{false, true}},
		{"hole: producer loses its CAS to the consumer", "C11 C12", func(poll bool) *dCfg {
			c := &dCfg{Name: "hole-after-lost-cas", P: 2, W: 2, Size: 2}
			if poll {
				c.Poll = 100 * time.Microsecond
			}
			holdC := newPause("m2o.next.enter", 1, long, false)
			holdB := newPause("m2o.set.loaded", 3, long, false)
			c.Pauses = []*dPause{holdC, holdB}
			c.Script = func(r *dRun) {
				if !waitArmed(holdC, time.Second) {
					return
				}
				r.write(0, 0)
				r.write(0, 1)
				done := make(chan struct{})
				go func() { r.prodG.Store(goid(), 1); r.write(1, 0); close(done) }()
				if !waitArmed(holdB, time.Second) {
					holdC.Release(r)
					<-done
					return
				}
				holdC.Release(r)
				waitDelivered(r, 1, 500*time.Millisecond) // slot 0 emptied by the consumer
				holdB.Release(r)
				<-done
				r.settle(2 * time.Second)
			}
			return c
		}, []bool{false, true}},
		{"first-lap overtake: the producer of position 0 resumes after position size was stored", "C11 C12", func(poll bool) *dCfg {
			c := &dCfg{Name: "first-lap-overtake", P: 2, W: 2, Size: 2}
			if poll {
				c.Poll = 100 * time.Microsecond
			}
			holdC := newPause("m2o.next.enter", 1, long, false)
			holdA := newPause("m2o.set.claimed", 1, long, false)
			c.Pauses = []*dPause{holdC, holdA}
			c.Script = func(r *dRun) {
				if !waitArmed(holdC, time.Second) {
					return
				}
				done := make(chan struct{})
				go func() { r.prodG.Store(goid(), 0); r.write(0, 0); close(done) }()
				if !waitArmed(holdA, time.Second) {
					holdC.Release(r)
					<-done
					return
				}
				r.write(1, 0)
				r.write(1, 1)
				holdA.Release(r)
				<-done
				holdC.Release(r)
				r.settle(2 * time.Second)
			}
			return c
		}, []bool{false, true}},
		{"lost wake-up: Set broadcasts between the consumer's empty TryNext and its Wait", "C12", func(poll bool) *dCfg {
			c := &dCfg{Name: "set-broadcast-before-wait", P: 1, W: 1, Size: 4}
			hold := newPause("waiter.next.beforewait", 1, long, false, "waiter.set.afterbroadcast")
			c.Pauses = []*dPause{hold}
			c.Script = func(r *dRun) {
				if !waitArmed(hold, time.Second) {
					return
				}
				r.write(0, 0)
				r.settle(2 * time.Second)
			}
			return c
		}, []bool{false}},
		{"cancel between the consumer's done check and its Wait", "C12", func(poll bool) *dCfg {
			c := &dCfg{Name: "cancel-before-wait", P: 1, W: 1, Size: 4}
			hold := newPause("waiter.next.beforewait", 1, 50*time.Millisecond, false, "diode.close.cancelled")
			c.Pauses = []*dPause{hold}
			c.Script = func(r *dRun) {
				if !waitArmed(hold, time.Second) {
					return
				}
				r.doClose(3 * time.Second)
			}
			return c
		}, []bool{false}},
		{"Write and Close between the consumer's cancellation check and its TryNext", "C11 C12", func(poll bool) *dCfg {
			// Next reads the cancellation state, then calls TryNext (hook point m2o.next.enter is its first
			// statement): a message written and a Close issued in between must still be drained
			c := &dCfg{Name: "write+close-between-done-read-and-trynext", P: 1, W: 1, Size: 4}
			if poll {
				c.Poll = 200 * time.Microsecond
			}
			hold := newPause("m2o.next.enter", 1, long, false, "diode.close.cancelled")
			c.Pauses = []*dPause{hold}
			c.Script = func(r *dRun) {
				if !waitArmed(hold, time.Second) {
					return
				}
				r.write(0, 0)
				r.doClose(3 * time.Second)
			}
			return c
		}, []bool{false, true}},
		{"Close of a diode that was never written to", "C12", func(poll bool) *dCfg {
			c := &dCfg{Name: "close-never-written", P: 1, W: 0, Size: 4, CloseTwice: 1}
			if poll {
				c.Poll = 2 * time.Millisecond
			}
			c.Script = func(r *dRun) {
				time.Sleep(300 * time.Microsecond)
				r.doClose(3 * time.Second)
			}
			return c
		}, []bool{false, true}},
		{"two producers one lap apart race for the same slot (the earlier position wins the CAS)", "C10 C11 C12", func(poll bool) *dCfg {
			return casRaceCfg(poll, true)
		}, []bool{false, true}},
		{"two producers one lap apart race for the same slot (the later position wins the CAS)", "C10 C11 C12", func(poll bool) *dCfg {
			return casRaceCfg(poll, false)
		}, []bool{false, true}},
		{"Close while the poller sleeps", "C12", func(poll bool) *dCfg {
			c := &dCfg{Name: "close-during-poll-sleep", P: 1, W: 1, Size: 4, Poll: 5 * time.Millisecond}
			c.Script = func(r *dRun) {
				time.Sleep(time.Millisecond)
				r.write(0, 0)
				r.doClose(3 * time.Second)
			}
			return c
		}, []bool{true}},
		{"Close with a full ring and a slow wrapped writer", "C11 C12", func(poll bool) *dCfg {
			c := &dCfg{Name: "close-full-ring-slow-writer", P: 1, W: 8, Size: 8, SlowW: 2, CloseEarly: true}
			if poll {
				c.Poll = 100 * time.Microsecond
			}
			return c
		}, []bool{false, true}},
	}
}

// casRaceCfg: ring of one slot, the consumer held before its first TryNext; producer A (position 0) and producer
// B (position 1) have both loaded the empty slot; they are released in the given order. The loser of the CAS
// must retry the same position (earlier wins: B overwrites A, A is reported missed) or move on to a new one
// (later wins: A finds a newer occupant).
func casRaceCfg(poll bool, earlierFirst bool) *dCfg {
	long := 300 * time.Millisecond
	c := &dCfg{Name: fmt.Sprintf("cas-race-one-lap-apart(earlierFirst=%v)", earlierFirst), P: 2, W: 1, Size: 1}
	if poll {
		c.Poll = 100 * time.Microsecond
	}
	holdC := newPause("m2o.next.enter", 1, long, false)
	holdA := newPause("m2o.set.loaded", 1, long, false)
	holdB := newPause("m2o.set.loaded", 2, long, false)
	c.Pauses = []*dPause{holdC, holdA, holdB}
	c.Script = func(r *dRun) {
		if !waitArmed(holdC, time.Second) {
			return
		}
		da, db := make(chan struct{}), make(chan struct{})
		go func() { r.prodG.Store(goid(), 0); r.write(0, 0); close(da) }()
		if !waitArmed(holdA, time.Second) {
			holdC.Release(r)
			<-da
			return
		}
		go func() { r.prodG.Store(goid(), 1); r.write(1, 0); close(db) }()
		if !waitArmed(holdB, time.Second) {
			holdA.Release(r)
			holdC.Release(r)
			<-da
			<-db
			return
		}
		if earlierFirst {
			holdA.Release(r)
			<-da
			holdB.Release(r)
			<-db
		} else {
			holdB.Release(r)
			<-db
			holdA.Release(r)
			<-da
		}
		holdC.Release(r)
		r.settle(2 * time.Second)
	}
	return c
}

// ---- judges -------------------------------------------------------------------------------------------------

type lfIn struct {
	write bool
	id    string
}

func judgeC10(out *evid.Out, r *dRun) {
	rep := r.describe()
	rep["check"] = "c10"
	viol := func(sig, desc string) { out.Violate(sig, desc+" "+r.cfg.String(), rep) }
	r.mu.Lock()
	spin := r.ProducerSpin
	r.mu.Unlock()
	if spin != "" {
		viol("producer-spins", "Write does not return while the wrapped writer is blocked or slow: "+spin)
	}
	r.wmu.Lock()
	wp := r.WritePanic
	r.wmu.Unlock()
	if wp != "" {
		viol("write-panics", "Write does not return: "+wp)
	}
	if r.ProducersHung == "parked" {
		viol("producer-blocked", "a producer's Write cannot return while the wrapped writer is blocked (producer goroutine parked): "+firstLines(r.StallDump, 6))
	} else if strings.HasPrefix(r.ProducersHung, "inconclusive") {
		out.Inconc("producers did not return within the watchdog but are not parked: " + r.ProducersHung + " " + r.cfg.String())
	}
	writes, deliveries := r.W(), r.D()
	byID := map[string]*dWrite{}
	for _, w := range writes {
		byID[w.ID] = w
	}
	seen := map[string]int{}
	for _, d := range deliveries {
		w, ok := byID[d.ID]
		switch {
		case !ok:
			viol("delivery-unknown", fmt.Sprintf("delivered buffer %q matches no Write argument", d.ID))
			continue
		case d.Sum != w.Sum || d.Len != w.Len:
			viol("delivery-corrupt", fmt.Sprintf("delivered buffer for %s is not byte-identical to the Write argument (len %d vs %d)", d.ID, d.Len, w.Len))
		case d.Changed:
			viol("delivery-changed-during-write", fmt.Sprintf("buffer of %s changed while the wrapped Write was running", d.ID))
		}
		if d.Inflight != 1 {
			viol("delivery-overlap", fmt.Sprintf("%d deliveries were in flight at once", d.Inflight))
		}
		seen[d.ID]++
		if seen[d.ID] == 2 {
			viol("delivery-duplicate", fmt.Sprintf("%s delivered twice", d.ID))
		}
		if d.Exit < w.Call {
			viol("delivery-before-write", fmt.Sprintf("%s delivered before its Write was called", d.ID))
		}
	}
	// order of effect: deliveries d1..dk are explainable by a linearization of the Writes iff for no
	// i<j Write(dj) returned before Write(di) was called.
	var maxCall int64
	var maxCallID string
	for _, d := range deliveries {
		w, ok := byID[d.ID]
		if !ok {
			continue
		}
		if w.Returned && w.Ret < maxCall {
			viol("order", fmt.Sprintf("%s was delivered after %s although its Write returned (t=%d) before the Write of %s was called (t=%d)", d.ID, maxCallID, w.Ret, maxCallID, maxCall))
			break
		}
		if w.Call > maxCall {
			maxCall, maxCallID = w.Call, w.ID
		}
	}
	if a := atomic.LoadInt64(&r.alertSum); a > r.nClaimed && !r.cfg.Hookless {
		viol("alerts-exceed-claims", fmt.Sprintf("alerter reported %d missed messages but only %d ring positions were claimed", a, r.nClaimed))
	}
	if !r.cfg.Hookless && r.ProducersHung == "" {
		// every claimed ring position is delivered, or reported missed, at most once
		if a, d := atomic.LoadInt64(&r.alertSum), int64(len(seen)); a+d > r.nClaimed {
			viol("alerts-plus-deliveries-exceed-claims", fmt.Sprintf("%d distinct messages delivered + %d reported missed > %d ring positions claimed (a position was counted twice)", d, a, r.nClaimed))
		}
	}
	// porcupine, as a second opinion on short histories
	if n := len(writes) + len(deliveries); n > 0 && n <= 20 && r.ProducersHung == "" {
		var ops []porcupine.Operation
		end := atomic.LoadInt64(&r.clk) + 10
		for i, w := range writes {
			ret := w.Ret
			if !w.Returned {
				ret = end
			}
			ops = append(ops, porcupine.Operation{ClientId: 1 + w.Prod, Input: lfIn{true, w.ID}, Call: w.Call, Output: "", Return: ret})
			_ = i
		}
		for _, d := range deliveries {
			ops = append(ops, porcupine.Operation{ClientId: 0, Input: lfIn{false, d.ID}, Call: d.Entry, Output: d.ID, Return: d.Exit})
		}
		model := porcupine.Model{
			Init: func() interface{} { return "" },
			Step: func(st, in, o interface{}) (bool, interface{}) {
				q := st.(string)
				x := in.(lfIn)
				if x.write {
					return true, q + x.id + ";"
				}
				i := strings.Index(q, x.id+";")
				if i < 0 || (i > 0 && q[i-1] != ';') {
					return false, q
				}
				return true, q[i+len(x.id)+1:]
			},
		}
		switch porcupine.CheckOperationsTimeout(model, ops, 10*time.Second) {
		case porcupine.Illegal:
			viol("order-porcupine", "porcupine finds no linearization of this history against the lossy-FIFO model")
		case porcupine.Unknown:
			out.Count("porcupine_unknown", 1)
		default:
			out.Count("porcupine_ok", 1)
		}
	}
}

func firstLines(s string, n int) string {
	l := strings.Split(s, "\n")
	if len(l) > n {
		l = l[:n]
	}
	return strings.Join(l, " | ")
}

// lossClass explains, from the hook trace, why the consumer stopped before the last claimed position.
func lossClass(r *dRun) string {
	ri := r.readIndex
	storedAt, later := false, false
	overwritten := false
	var lastStoredAtIdx = map[uint64]uint64{}
	for _, e := range r.trace {
		if dPoints[e.Pt] == "m2o.set.stored" {
			if e.Arg == ri {
				storedAt = true
			}
			if e.Arg > ri {
				later = true
			}
			idx := e.Arg % uint64(r.cfg.Size)
			if prev, ok := lastStoredAtIdx[idx]; ok && prev > e.Arg && prev >= ri {
				overwritten = true
			}
			lastStoredAtIdx[idx] = e.Arg
		}
	}
	w := r.windows()
	switch {
	case overwritten:
		return "newer-message-overwritten-by-older-position"
	case !storedAt && later:
		return "hole-at-readIndex(abandoned-position)"
	case storedAt && w["cancel_during_trynext"] > 0:
		return "message-in-ring-when-consumer-exited(cancel-during-trynext)"
	case storedAt:
		return "message-in-ring-when-consumer-stopped"
	}
	return "other"
}

func judgeC11(out *evid.Out, r *dRun) {
	rep := r.describe()
	rep["check"] = "c11"
	viol := func(sig, desc string) { out.Violate(sig, desc+" "+r.cfg.String(), rep) }
	if r.CloseHung != "" || r.ProducersHung != "" {
		out.Inconc("run did not complete (" + r.CloseHung + r.ProducersHung + "); accounting not judged " + r.cfg.String())
		return
	}
	if r.cfg.NilAlerter {
		return // losses are unobservable by design
	}
	wr, ret, del, al := r.counts()
	if ret != wr {
		out.Inconc("not every Write returned; accounting not judged " + r.cfg.String())
		return
	}
	closeRet := atomic.LoadInt64(&r.closeRet)
	// messages whose Write returned before Close was called
	before := 0
	undeliveredBefore := 0
	deliveredSet := map[string]bool{}
	for _, d := range r.D() {
		if d.AfterWClose {
			viol("delivery-after-wrapped-close", fmt.Sprintf("%s was handed to the wrapped writer after Close had already closed that writer", d.ID))
			continue
		}
		if closeRet != 0 && d.Entry > closeRet {
			continue // not "delivered before Close returned"
		}
		deliveredSet[d.ID] = true
	}
	if lost := lostPositions(r); len(lost) > 0 && !r.cfg.Hookless && r.cfg.CloseTwice != 2 {
		allBefore := true
		for _, w := range r.W() {
			if !(w.Ret < r.closeCalled) {
				allBefore = false
			}
		}
		if allBefore {
			viol("silent-loss-position:"+lossClass(r), fmt.Sprintf("ring position(s) %v were stored by a Write that returned before Close was called, but the consumer neither took them nor skipped them with an alert (the totals may still add up: alerts for abandoned positions hide the loss)", lost))
		}
	}
	for _, w := range r.W() {
		if w.Ret < r.closeCalled {
			before++
			if !deliveredSet[w.ID] {
				undeliveredBefore++
			}
		}
	}
	if int64(undeliveredBefore) > al {
		viol("silent-loss:"+lossClass(r), fmt.Sprintf("%d message(s) whose Write returned before Close was called were neither delivered before Close returned nor covered by the alerter's counts (written %d, delivered %d, reported %d)", int64(undeliveredBefore)-al, wr, del, al))
	} else if r.nClaimed == int64(wr) && before == wr && int64(del)+al != int64(wr) && !r.cfg.Hookless {
		viol("accounting-inexact", fmt.Sprintf("no ring position was retried, yet delivered %d + reported %d != written %d", del, al, wr))
	}
	if mo := r.maxOutstanding(); mo < r.cfg.Size && before == wr && (al != 0 || del != wr) {
		viol("dropped-below-capacity:"+lossClass(r), fmt.Sprintf("at most %d messages were outstanding (ring size %d) yet delivered %d of %d, reported %d", mo, r.cfg.Size, del, wr, al))
	} else if mo < r.cfg.Size {
		out.Count("runs_below_capacity", 1)
	}
	if r.nClaimed == int64(wr) && !r.cfg.Hookless {
		out.Count("runs_without_retry", 1)
	}
	if r.cfg.Hookless {
		out.Count("hookless_runs", 1)
	}
}

// lostPositions replays the hook trace: a stored position must be taken by the consumer or lie inside a
// range [readIndex, seq) the consumer skipped with an alert.
func lostPositions(r *dRun) []uint64 {
	stored := map[uint64]bool{}
	taken := map[uint64]bool{}
	type rg struct{ a, b uint64 }
	var ranges []rg
	var ri uint64
	for _, e := range r.trace {
		switch dPoints[e.Pt] {
		case "m2o.set.stored":
			stored[e.Arg] = true
		case "m2o.next.enter":
			ri = e.Arg
		case "m2o.next.swapped":
			if e.Arg >= ri {
				taken[e.Arg] = true
				if e.Arg > ri {
					ranges = append(ranges, rg{ri, e.Arg})
				}
			}
		}
	}
	var lost []uint64
	for s := range stored {
		if taken[s] {
			continue
		}
		ok := false
		for _, g := range ranges {
			if s >= g.a && s < g.b {
				ok = true
				break
			}
		}
		if !ok {
			lost = append(lost, s)
		}
	}
	sort.Slice(lost, func(i, j int) bool { return lost[i] < lost[j] })
	return lost
}

// unaccounted counts the messages whose Write returned before Close was called and that were not delivered before
// Close returned; al is what the alerter was told.
func unaccounted(r *dRun) (undelivered int, al int64, ok bool) {
	wr, ret, _, al := r.counts()
	if ret != wr || r.CloseHung != "" || r.ProducersHung != "" || r.cfg.NilAlerter {
		return 0, al, false
	}
	closeRet := atomic.LoadInt64(&r.closeRet)
	if closeRet == 0 {
		return 0, al, false
	}
	delivered := map[string]bool{}
	for _, d := range r.D() {
		if !d.AfterWClose && d.Entry <= closeRet {
			delivered[d.ID] = true
		}
	}
	for _, w := range r.W() {
		if w.Ret < r.closeCalled && !delivered[w.ID] {
			undelivered++
		}
	}
	return undelivered, al, true
}

func judgeC12(out *evid.Out, r *dRun) {
	rep := r.describe()
	rep["check"] = "c12"
	viol := func(sig, desc string) { out.Violate(sig, desc+" "+r.cfg.String(), rep) }
	// "reaches the wrapped writer or is reported dropped": what was not delivered must be covered by what the alerter
	// was told (the positions skipped in the hook trace say nothing about whether the report reached the user)
	if und, al, ok := unaccounted(r); ok && int64(und) > al {
		viol("neither-delivered-nor-reported:"+lossClass(r), fmt.Sprintf("%d message(s) whose Write had returned before Close was called were not delivered when Close returned, but the alerter was told of %d only", und, al))
	}
	if strings.HasPrefix(r.CloseHung, "Close parked") {
		viol("close-hangs", "Close cannot return: "+r.CloseHung)
	} else if r.CloseHung != "" {
		out.Inconc("Close did not return within the watchdog: " + r.CloseHung + " " + r.cfg.String())
	}
	if r.Livelock != "" {
		viol("consumer-livelock", "the consumer does not move on to later messages: "+r.Livelock)
	}
	// "once a Write has returned the message reaches the wrapped writer or is reported dropped": when everything is
	// over (Close returned), no stored position of a Write that returned before Close may be left behind
	if r.CloseHung == "" && r.ProducersHung == "" && !r.cfg.Hookless && !r.cfg.NilAlerter && r.cfg.CloseTwice != 2 && r.StallState == "" {
		allBefore := true
		for _, w := range r.W() {
			if !w.Returned || !(w.Ret < r.closeCalled) {
				allBefore = false
			}
		}
		if lost := lostPositions(r); allBefore && len(lost) > 0 {
			viol("never-delivered:"+lossClass(r), fmt.Sprintf("ring position(s) %v were stored by Writes that had returned before Close was called; when Close had returned they were neither delivered nor reported dropped", lost))
		}
	}
	switch r.StallState {
	case "parked", "polling":
		_, ret, del, al := r.counts()
		recovered := r.progressDone() && int64(del)+al >= int64(ret)
		lastC := dPoints[atomic.LoadInt32(&r.lastConsumer)]
		class := lossClass(r)
		// after Close the consumer's last event is a drain event; the pre-Close position is what matters:
		// find the last consumer event before Close was called
		lastBefore := ""
		for _, e := range r.trace {
			if e.T > r.closeCalled && r.closeCalled != 0 {
				break
			}
			if e.Role == roleConsumer {
				lastBefore = dPoints[e.Pt]
			}
		}
		_ = lastC
		sig := fmt.Sprintf("stall:%s:last=%s:recovered-by-close=%v", r.StallState, lastBefore, recovered)
		if r.MidRunStall {
			sig = fmt.Sprintf("stall-mid-run:%s:last=%s", r.StallState, lastBefore)
		}
		if r.cfg.Poll == 0 && r.StallState == "parked" && lastBefore == "waiter.next.beforewait" && recovered && strings.Contains(r.StallDump, "sync.Cond.Wait") {
			sig = "waiter:lost-wakeup:set-broadcast-before-wait"
		} else {
			sig += ":" + class
		}
		viol(sig, fmt.Sprintf("after every Write had returned, with no further Write or Close, the consumer stopped at readIndex %d (%s) while positions up to %d were claimed: delivered %d, reported %d of %d written; consumer %s",
			readIndexAtStall(r), r.StallState, r.maxClaimed, del, al, ret, firstLines(r.StallDump, 4)))
	case "spinning":
		_, ret, del, al := r.counts()
		viol("consumer-spins-without-polling", fmt.Sprintf("after every Write had returned, with Close not yet called, the polling consumer was runnable or running inside the poller for 400 consecutive looks (each after a 100 us pause of the observer) without one poll or delivery while positions up to %d were claimed (reached %d): delivered %d, reported %d of %d written; consumer %s",
			r.maxClaimed, readIndexAtStall(r), del, al, ret, firstLines(r.StallDump, 4)))
	case "exited":
		_, ret, del, al := r.counts()
		viol("consumer-exited-with-work-pending", fmt.Sprintf("after every Write had returned, with Close not yet called, the consumer goroutine no longer exists while positions up to %d were claimed and the consumer had reached %d: delivered %d, reported %d of %d written - only a Close could still deliver the rest",
			r.maxClaimed, readIndexAtStall(r), del, al, ret))
	case "inconclusive":
		out.Inconc("neither progress nor a stable blocked state within the watchdog " + r.cfg.String())
	default:
		if r.Quiesced {
			out.Count("runs_reaching_quiescence_with_full_progress", 1)
		}
	}
}

func readIndexAtStall(r *dRun) uint64 {
	var ri uint64
	for _, e := range r.trace {
		if r.closeCalled != 0 && e.T > r.closeCalled {
			break
		}
		if dPoints[e.Pt] == "m2o.next.enter" {
			ri = e.Arg
		}
	}
	return ri
}

// ---- driver -------------------------------------------------------------------------------------------------

func diodeCheck(prop string, args []string) int {
	f := mustFlags(args)
	out := evid.New(prop)
	installDiodeHook()
	judge := map[string]func(*evid.Out, *dRun){"C10": judgeC10, "C11": judgeC11, "C12": judgeC12}[prop]
	inter := map[uint64]struct{}{}
	winTotals := map[string]int{}
	account := func(r *dRun, nontrivial bool) {
		h := r.interleavingHash()
		inter[h] = struct{}{}
		ws := r.windows()
		for k, v := range ws {
			winTotals[k] += v
		}
		out.Case(h, nontrivial || len(ws) > 0)
		for _, k := range []string{"cas_lost", "collision_with_newer_bucket", "lap_alert", "position_retried"} {
			if ws[k] > 0 {
				out.Count("runs_with_window_"+k, 1)
			}
		}
		if r.cfg.LateWrites {
			out.Count("runs_with_writes_during_and_after_close", 1)
		}
		if r.cfg.ReAlerter && atomic.LoadInt64(&r.alertCalls) > 0 {
			out.Count("runs_where_the_alerter_wrote_to_the_diode", 1)
		}
		if r.cfg.NilAlerter && ws["lap_alert"] > 0 {
			out.Count("runs_lapping_with_nil_alerter", 1)
		}
		if r.cfg.CloseTwice > 0 {
			out.Count("runs_closing_twice", 1)
		}
		if atomic.LoadInt32(&r.wrappedCloses) > 0 {
			out.Count("runs_where_wrapped_close_was_called", 1)
		}
		out.Count("hook_events", int64(len(r.trace)))
		out.Count("writes", int64(len(r.W())))
		out.Count("deliveries", int64(len(r.D())))
	}
	// 1. seeded noisy runs
	n := f.N(6000, 300000)
	if isRace() {
		n = f.N(1000, 50000)
	}
	for idx := 0; idx < n; idx++ {
		if !f.Mine(idx) {
			continue
		}
		if diodeTainted {
			out.Count("runs_skipped_after_a_hang_left_goroutines_behind", 1)
			continue
		}
		cfg, rr := randomCfg(prop, f, idx)
		r := runDiode(cfg, rr)
		judge(out, r)
		account(r, cfg.P > 1)
		if idx%(n/4+1) == 0 {
			d := r.describe()
			tr := d["hook_trace"].(string)
			if len(tr) > 900 {
				d["hook_trace"] = tr[:900] + "..."
			}
			out.Sample(d, 4)
		}
		out.Count("noisy_runs", 1)
		if cfg.EmptyAt != 0 {
			out.Count("runs_with_zero_length_message", 1)
		}
		if cfg.W == 0 {
			out.Count("runs_without_any_write", 1)
		}
	}
	// 2a. (thorough) pairs of directed pauses: the k1-th arrival at p1 and the k2-th arrival at p2 each wait
	// until a goroutine of another role makes a step (sharded)
	if f.Thorough() {
		pi := 0
		for p1 := range dPoints {
			for p2 := p1 + 1; p2 < len(dPoints); p2++ {
				for k := 0; k < 4; k++ {
					for _, poll := range []bool{false, true} {
						for _, size := range []int{1, 2} {
							pi++
							if !f.Mine(pi) || diodeTainted {
								continue
							}
							cfg := sweepCfg(p1, 1+k%2, poll, size)
							cfg.Name = fmt.Sprintf("pair[%s#%d,%s#%d]", dPoints[p1], 1+k%2, dPoints[p2], 1+k/2)
							cfg.Pauses = append(cfg.Pauses, &dPause{Pt: p2, K: 1 + k/2, Timeout: 3 * time.Millisecond, OtherRole: true, armed: make(chan struct{}), release: make(chan struct{})})
							cfg.P, cfg.W = 2, 3
							r := runDiode(cfg, rng.New(f.Seed, uint64(pi)))
							judge(out, r)
							account(r, true)
							out.Count("pair_sweep_runs", 1)
							if cfg.Pauses[0].entered && cfg.Pauses[1].entered {
								out.Count("pair_sweep_both_pauses_entered", 1)
							}
						}
					}
				}
			}
		}
	}
	// 2. systematic single-pause sweep over every hook point
	if f.Shard == 0 || f.NShards == 1 {
		reps := 1
		if f.Thorough() {
			reps = 5
		}
		for rep := 0; rep < reps; rep++ {
			for pt := range dPoints {
				for k := 1; k <= 3; k++ {
					for _, poll := range []bool{false, true} {
						for _, size := range []int{1, 2, 4} {
							for variant := 0; variant < 4; variant++ {
								// 0: pause until another role steps, Close at quiescence; 1: same, Close right after the
								// producers joined; 2/3: consumer points held until every producer returned (whole laps
								// pass), without / with an immediate Close
								if diodeTainted {
									continue
								}
								var cfg *dCfg
								switch variant {
								case 0, 1:
									cfg = sweepCfg(pt, k, poll, size)
									cfg.CloseEarly = variant == 1
								default:
									if dPointRole[pt] != roleConsumer || rep > 0 {
										continue
									}
									cfg = holdCfg(pt, k, poll, size, variant == 3)
								}
								r := runDiode(cfg, rng.New(f.Seed, uint64(pt), uint64(k)))
								judge(out, r)
								account(r, true)
								out.Count("sweep_runs", 1)
								if cfg.Pauses[0].entered {
									out.Count("sweep_pauses_entered", 1)
									if variant >= 2 {
										out.Count("consumer_points_held_across_laps", 1)
									}
								}
							}
						}
					}
				}
			}
		}
		// 3. directed scenarios
		reps = 3
		if f.Thorough() {
			reps = 30
		}
		for _, sc := range directedScenarios() {
			if !strings.Contains(sc.props, prop) {
				continue
			}
			for _, poll := range sc.modes {
				for rep := 0; rep < reps && !diodeTainted; rep++ {
					cfg := sc.mk(poll)
					r := runDiode(cfg, rng.New(f.Seed, 7))
					judge(out, r)
					account(r, true)
					out.Count("directed_runs", 1)
					entered := 0
					for _, p := range cfg.Pauses {
						if p.entered {
							entered++
						}
					}
					if entered == len(cfg.Pauses) {
						out.Count("directed_windows_reached", 1)
					} else {
						out.Inconc(fmt.Sprintf("directed scenario %q (poll=%v): targeted window not reached (%d/%d pauses entered)", sc.name, poll, entered, len(cfg.Pauses)))
					}
				}
			}
		}
		if prop == "C11" {
			c11Fatal(out)
			c11FatalSuppressed(out)
		}
	}
	out.Extra["sum_distinct_interleavings"] = len(inter)
	out.Extra["windows_observed"] = winTotals
	out.Extra["sum_collision_log_lines"] = atomic.LoadInt64(&collisionLines)
	out.Finish(f)
	return 0
}

// ---- Fatal path (C11) -----------------------------------------------------------------------------------------

func c11Fatal(out *evid.Out) {
	self, err := os.Executable()
	if err != nil {
		return
	}
	os.MkdirAll("/verif/build/out", 0o755)
	ci := 0
	for _, wrap := range []string{"plain", "filtered", "multi", "sync", "adapter", "multi-after-levelwriter", "multi-after-plainwriter", "multi-before-others", "sync-multi", "filtered-in-multi", "with-level-output",
		"console-value", "console-pointer", "console-value-in-multi", "newconsole-output"} {
		for _, n := range []int{0, 1, 5, 31} {
			ci++
			// the wrapping x count grid runs in waiter mode with Msg; poller mode, the other finalizers and
			// concurrent loggers rotate over it
			poll := []int{0, 0, 150, 2000}[ci%4]
			fin := []string{"Msg", "Msgf", "Send", "MsgFunc", "pkg-log"}[ci%5]
			conc := ci%3 == 0
			path := fmt.Sprintf("/verif/build/out/c11fatal.%d.%s.%d", os.Getpid(), wrap, n)
			cmd := exec.Command(self, "c11-fatal-child", wrap, fmt.Sprint(n), path, fmt.Sprint(poll), fin, fmt.Sprint(conc))
			err := cmd.Run()
			code := 0
			if ee, ok := err.(*exec.ExitError); ok {
				code = ee.ExitCode()
			}
			lines := 0
			fatal := false
			seen := map[int]bool{}
			if fh, err := os.Open(path); err == nil {
				sc := bufio.NewScanner(fh)
				for sc.Scan() {
					lines++
					if strings.Contains(sc.Text(), `"level":"fatal"`) || strings.Contains(sc.Text(), " FTL") {
						fatal = true
					}
					var i int
					if k := strings.Index(sc.Text(), `"i":`); k >= 0 {
						if _, err := fmt.Sscanf(sc.Text()[k:], `"i":%d`, &i); err == nil {
							seen[i] = true
						}
					} else if k := strings.Index(sc.Text(), " i="); k >= 0 { // console rendering
						if _, err := fmt.Sscanf(sc.Text()[k:], " i=%d", &i); err == nil {
							seen[i] = true
						}
					}
				}
				fh.Close()
			}
			os.Remove(path)
			missing := 0
			for i := 0; i < n; i++ {
				if !seen[i] {
					missing++
				}
			}
			// with other goroutines logging, their events may or may not make it (they race with Close); the n
			// events logged before Fatal and the fatal event itself must
			if code != 1 || missing != 0 || !fatal || (!conc && lines != n+1) {
				out.Violate("fatal-path", fmt.Sprintf("Fatal through a diode writer (%s, %d prior events, ring 32, poll %dus, %s, concurrent loggers=%v): exit status %d, %d events on disk, %d of the %d prior events missing, fatal event present=%v", wrap, n, poll, fin, conc, code, lines, missing, n, fatal),
					map[string]interface{}{"check": "c11", "wrap": wrap, "n": n, "poll_us": poll, "finalizer": fin, "concurrent": conc})
			}
			out.Count("fatal_path_cases", 1)
			if poll > 0 {
				out.Count("fatal_path_cases_poller_mode", 1)
			}
			if conc {
				out.Count("fatal_path_cases_with_concurrent_loggers", 1)
			}
		}
	}
}

// c11FatalSuppressed: Fatal() ends the program also when its own event is not written (level, global level, sampler,
// a discarding hook): what was written before it is still delivered.
func c11FatalSuppressed(out *evid.Out) {
	self, err := os.Executable()
	if err != nil {
		return
	}
	ci := 0
	for _, wrap := range []string{"plain", "multi", "console-value", "sync"} {
		for _, sup := range []string{"level", "global", "sampler", "hook"} {
			for _, n := range []int{1, 5} {
				ci++
				poll := []int{0, 150}[ci%2]
				fin := []string{"Msg", "Msgf", "Send", "MsgFunc"}[ci%4]
				path := fmt.Sprintf("/verif/build/out/c11fatal.%d.%s.%s.%d", os.Getpid(), wrap, sup, n)
				cmd := exec.Command(self, "c11-fatal-child", wrap, fmt.Sprint(n), path, fmt.Sprint(poll), fin, "false", sup)
				err := cmd.Run()
				code := 0
				if ee, ok := err.(*exec.ExitError); ok {
					code = ee.ExitCode()
				}
				seen := map[int]bool{}
				if b, err := os.ReadFile(path); err == nil {
					for _, ln := range strings.Split(string(b), "\n") {
						var i int
						if k := strings.Index(ln, `"i":`); k >= 0 {
							if _, err := fmt.Sscanf(ln[k:], `"i":%d`, &i); err == nil {
								seen[i] = true
							}
						} else if k := strings.Index(ln, " i="); k >= 0 {
							if _, err := fmt.Sscanf(ln[k:], " i=%d", &i); err == nil {
								seen[i] = true
							}
						}
					}
				}
				os.Remove(path)
				missing := 0
				for i := 0; i < n; i++ {
					if !seen[i] {
						missing++
					}
				}
				if code != 1 || missing != 0 {
					out.Violate("fatal-path-suppressed", fmt.Sprintf("Fatal whose own event is suppressed (%s) through a diode writer (%s, %d prior events, poll %dus, %s): exit status %d, %d of the %d prior events missing", sup, wrap, n, poll, fin, code, missing, n),
						map[string]interface{}{"check": "c11", "wrap": wrap, "suppressed_by": sup, "n": n})
				}
				out.Count("fatal_path_cases_with_suppressed_fatal_event", 1)
			}
		}
	}
}

// nopLevelWriter is a user-written per-level sink without a Close method.
type nopLevelWriter struct{}

func (nopLevelWriter) Write(p []byte) (int, error)                       { return len(p), nil }
func (nopLevelWriter) WriteLevel(l zerolog.Level, p []byte) (int, error) { return len(p), nil }

type fileW struct{ f *os.File }

func (w fileW) Write(p []byte) (int, error) {
	time.Sleep(200 * time.Microsecond) // slow destination: events are still in the ring when Fatal is called
	return w.f.Write(p)
}

// Close makes the destination an io.Closer: diode.Writer.Close closes it after the drain; a write after that fails.
func (w fileW) Close() error { return w.f.Close() }

func c11FatalChild(args []string) int {
	wrap := args[0]
	var n, pollUs int
	fmt.Sscan(args[1], &n)
	fin, conc, sup := "Msg", false, ""
	if len(args) >= 6 {
		fmt.Sscan(args[3], &pollUs)
		fin = args[4]
		conc = args[5] == "true"
	}
	if len(args) >= 7 {
		sup = args[6]
	}
	fh, err := os.Create(args[2])
	if err != nil {
		return 3
	}
	dw := diode.NewWriter(fileW{fh}, 32, time.Duration(pollUs)*time.Microsecond, nil)
	var l zerolog.Logger
	switch wrap {
	case "filtered":
		l = zerolog.New(&zerolog.FilteredLevelWriter{Writer: zerolog.LevelWriterAdapter{Writer: dw}, Level: zerolog.DebugLevel})
	case "multi":
		l = zerolog.New(zerolog.MultiLevelWriter(dw))
	case "sync":
		l = zerolog.New(zerolog.SyncWriter(dw))
	case "adapter":
		l = zerolog.New(zerolog.LevelWriterAdapter{Writer: dw})
	case "multi-after-levelwriter":
		l = zerolog.New(zerolog.MultiLevelWriter(nopLevelWriter{}, dw))
	case "multi-after-plainwriter":
		l = zerolog.New(zerolog.MultiLevelWriter(io.Discard, dw))
	case "multi-before-others":
		l = zerolog.New(zerolog.MultiLevelWriter(dw, nopLevelWriter{}, io.Discard))
	case "sync-multi":
		l = zerolog.New(zerolog.SyncWriter(zerolog.MultiLevelWriter(nopLevelWriter{}, dw)))
	case "filtered-in-multi":
		l = zerolog.New(zerolog.MultiLevelWriter(nopLevelWriter{}, &zerolog.FilteredLevelWriter{Writer: zerolog.LevelWriterAdapter{Writer: dw}, Level: zerolog.TraceLevel}))
	case "console-value":
		// a ConsoleWriter held by value in front of the diode: Fatal reaches the diode's Close through it
		l = zerolog.New(zerolog.ConsoleWriter{Out: dw, NoColor: true})
	case "console-pointer":
		l = zerolog.New(&zerolog.ConsoleWriter{Out: dw, NoColor: true})
	case "console-value-in-multi":
		l = zerolog.New(zerolog.MultiLevelWriter(nopLevelWriter{}, zerolog.ConsoleWriter{Out: dw, NoColor: true}))
	case "newconsole-output":
		l = zerolog.New(io.Discard).Output(zerolog.NewConsoleWriter(func(w *zerolog.ConsoleWriter) { w.Out, w.NoColor = dw, true }))
	case "with-level-output":
		l = zerolog.New(io.Discard).With().Str("svc", "x").Logger().Level(zerolog.DebugLevel).Output(zerolog.MultiLevelWriter(nopLevelWriter{}, dw))
	default:
		l = zerolog.New(dw)
	}
	for i := 0; i < n; i++ {
		l.Info().Int("i", i).Msg("before fatal")
	}
	if conc && n+3 <= 31 {
		// other goroutines keep logging through the same logger while Fatal closes the writer (ring 32 and a
		// slow destination: one event each, so that the n prior events are never lapped)
		for g := 0; g < 2; g++ {
			go func(g int) {
				defer func() { recover() }()
				l.Warn().Int("other", g).Msg("concurrent")
			}(g)
		}
	}
	// the Fatal call itself goes through a logger whose fatal event is not written
	switch sup {
	case "level":
		l = l.Level(zerolog.Disabled)
	case "global":
		zerolog.SetGlobalLevel(zerolog.Disabled)
	case "sampler":
		l = l.Sample(&zerolog.BasicSampler{N: 0})
	case "hook":
		l = l.Hook(zerolog.HookFunc(func(e *zerolog.Event, lv zerolog.Level, _ string) {
			if lv == zerolog.FatalLevel {
				e.Discard()
			}
		}))
	}
	switch fin {
	case "Msgf":
		l.Fatal().Msgf("bye %d", 1)
	case "Send":
		l.Fatal().Send()
	case "MsgFunc":
		l.Fatal().MsgFunc(func() string { return "bye" })
	case "pkg-log":
		zlog.Logger = l
		zlog.Fatal().Msg("bye")
	default:
		l.Fatal().Msg("bye")
	}
	return 0
}

var _ = sort.Ints
