package main

import (
	"bytes"
	"fmt"
	"sort"
	"strconv"
	"strings"
	"time"

	"github.com/rs/zerolog"
	"github.com/rs/zerolog/diode/verifh/evid"
	"github.com/rs/zerolog/diode/verifh/gen"
	"github.com/rs/zerolog/diode/verifh/jsonv"
	"github.com/rs/zerolog/diode/verifh/rng"
)

func init() { commands["c16"] = c16 }

type c16cfg struct {
	PartsOrder    []string
	PartsExclude  []string
	FieldsOrder   []string
	FieldsExclude []string
	TimeFormat    string
	Loc           *time.Location
	LocName       string
}

func (c *c16cfg) String() string {
	return fmt.Sprintf("{PartsOrder(nil=%v):%q PartsExclude:%q FieldsOrder:%q FieldsExclude:%q TimeFormat:%q TimeLocation:%s}", c.PartsOrder == nil, c.PartsOrder, c.PartsExclude, c.FieldsOrder, c.FieldsExclude, c.TimeFormat, c.LocName)
}

func inList(l []string, s string) bool {
	for _, x := range l {
		if x == s {
			return true
		}
	}
	return false
}

func needsQuoteRef(s string) bool {
	for i := 0; i < len(s); i++ {
		c := s[i]
		if c < 0x20 || c > 0x7e || c == ' ' || c == '\\' || c == '"' {
			return true
		}
	}
	return false
}

var fmtLevels = map[string]string{"trace": "TRC", "debug": "DBG", "info": "INF", "warn": "WRN", "error": "ERR", "fatal": "FTL", "panic": "PNC"}

// refParts renders the configured parts of the event (reference implementation of the statement).
func refParts(ev *jsonv.Node, c *c16cfg, st *gen.Settings) (string, error) {
	var parts []string
	order := c.PartsOrder
	if order == nil {
		order = []string{st.TimestampFieldName, st.LevelFieldName, "caller", st.MessageFieldName}
	}
	for _, p := range order {
		if inList(c.PartsExclude, p) {
			continue
		}
		v := ev.Get(p)
		s := ""
		switch p {
		case st.LevelFieldName:
			if v == nil || v.Kind != jsonv.String {
				return "", fmt.Errorf("generator: event without a standard level")
			}
			f, ok := fmtLevels[v.Str]
			if !ok {
				return "", fmt.Errorf("generator: non-standard level %q", v.Str)
			}
			s = f
		case st.TimestampFieldName:
			if v == nil {
				return "", fmt.Errorf("generator: event without timestamp")
			}
			tf := c.TimeFormat
			if tf == "" {
				tf = time.Kitchen
			}
			loc := c.Loc
			if loc == nil {
				loc = time.Local
			}
			var t time.Time
			switch v.Kind {
			case jsonv.String:
				pt, err := time.ParseInLocation(st.TimeFieldFormat, v.Str, loc)
				if err != nil {
					return "", fmt.Errorf("generator: timestamp %q does not parse", v.Str)
				}
				t = pt
			case jsonv.Number:
				i, err := strconv.ParseInt(v.Num, 10, 64)
				if err != nil {
					return "", fmt.Errorf("generator: timestamp %s", v.Num)
				}
				switch st.TimeFieldFormat {
				case zerolog.TimeFormatUnixNano:
					t = time.Unix(0, i)
				case zerolog.TimeFormatUnixMicro:
					t = time.Unix(0, i*1000)
				case zerolog.TimeFormatUnixMs:
					t = time.Unix(0, i*1000000)
				default:
					t = time.Unix(i, 0)
				}
			default:
				return "", fmt.Errorf("generator: timestamp kind")
			}
			s = t.In(loc).Format(tf)
		case st.MessageFieldName:
			if v != nil {
				if v.Kind != jsonv.String {
					return "", fmt.Errorf("generator: message kind")
				}
				s = v.Str
			}
		case "caller":
			if v != nil {
				return "", fmt.Errorf("generator: caller present")
			}
		default:
			return "", fmt.Errorf("generator: non-standard part %q", p)
		}
		if s != "" {
			parts = append(parts, s)
		}
	}
	return strings.Join(parts, " "), nil
}

// refFieldOrder returns the specified order of the remaining fields; errFree=true means the error
// field's position is unspecified and it is returned separately.
func refFieldOrder(ev *jsonv.Node, c *c16cfg, st *gen.Settings) (order []string, errUnspecified bool) {
	seen := map[string]bool{}
	var names []string
	for _, kv := range ev.Obj {
		k := kv.Key
		if seen[k] {
			continue
		}
		seen[k] = true
		if k == st.LevelFieldName || k == st.TimestampFieldName || k == st.MessageFieldName || k == "caller" {
			continue
		}
		if inList(c.FieldsExclude, k) {
			continue
		}
		names = append(names, k)
	}
	sort.Strings(names)
	if len(c.FieldsOrder) == 0 {
		var out []string
		if seen[st.ErrorFieldName] && inList(names, st.ErrorFieldName) {
			out = append(out, st.ErrorFieldName)
		}
		for _, n := range names {
			if n != st.ErrorFieldName {
				out = append(out, n)
			}
		}
		return out, false
	}
	var out []string
	used := map[string]bool{}
	for _, fo := range c.FieldsOrder {
		if inList(names, fo) && !used[fo] {
			used[fo] = true
			out = append(out, fo)
		}
	}
	for _, n := range names {
		if !used[n] {
			out = append(out, n)
		}
	}
	return out, inList(names, st.ErrorFieldName)
}

// matchField consumes "name=value" at the start of b for event value v; returns bytes consumed.
func matchField(b []byte, name string, v *jsonv.Node) (int, error) {
	pre := name + "="
	if !bytes.HasPrefix(b, []byte(pre)) {
		return 0, fmt.Errorf("expected %q", pre)
	}
	n := len(pre)
	rest := b[n:]
	switch v.Kind {
	case jsonv.String:
		want := v.Str
		if needsQuoteRef(want) {
			want = strconv.Quote(want)
		}
		if !bytes.HasPrefix(rest, []byte(want)) {
			return 0, fmt.Errorf("field %q: expected string rendering %q", name, trunc120(want))
		}
		return n + len(want), nil
	case jsonv.Number:
		if !bytes.HasPrefix(rest, []byte(v.Num)) {
			return 0, fmt.Errorf("field %q: expected the exact JSON digits %s", name, v.Num)
		}
		return n + len(v.Num), nil
	}
	got, used, err := jsonv.ParsePrefix(rest)
	if err != nil {
		return 0, fmt.Errorf("field %q: value is not compact JSON: %v", name, err)
	}
	if bytes.ContainsAny(stripStrings(rest[:used]), " \t\r\n") {
		return 0, fmt.Errorf("field %q: JSON value contains insignificant whitespace", name)
	}
	if !jsonv.SemEqual(got, v) {
		return 0, fmt.Errorf("field %q: rendered JSON %s is not the event's value %s", name, trunc120(string(rest[:used])), trunc120(string(v.Raw)))
	}
	return n + used, nil
}

func trunc120(s string) string {
	if len(s) > 120 {
		return s[:100] + "..."
	}
	return s
}

// stripStrings blanks out JSON string literals so whitespace inside them is not counted.
func stripStrings(b []byte) []byte {
	out := make([]byte, 0, len(b))
	in := false
	for i := 0; i < len(b); i++ {
		c := b[i]
		if in {
			if c == '\\' {
				i++
				continue
			}
			if c == '"' {
				in = false
			}
			continue
		}
		if c == '"' {
			in = true
			continue
		}
		out = append(out, c)
	}
	return out
}

// checkConsole compares one ConsoleWriter output line with the reference.
func checkConsole(line []byte, ev *jsonv.Node, c *c16cfg, st *gen.Settings) error {
	if len(line) == 0 || line[len(line)-1] != '\n' {
		return fmt.Errorf("output does not end with a newline")
	}
	body := line[:len(line)-1]
	parts, err := refParts(ev, c, st)
	if err != nil {
		return err
	}
	order, errFree := refFieldOrder(ev, c, st)
	if !bytes.HasPrefix(body, []byte(parts)) {
		return fmt.Errorf("parts: expected the line to start with %q", trunc120(parts))
	}
	pos := len(parts)
	first := parts == ""
	if errFree {
		// the error field may sit anywhere: locate it by trying each position
		var rest []string
		for _, n := range order {
			if n != st.ErrorFieldName {
				rest = append(rest, n)
			}
		}
		for at := 0; at <= len(rest); at++ {
			try := append(append(append([]string{}, rest[:at]...), st.ErrorFieldName), rest[at:]...)
			if matchFields(body, pos, first, try, ev) == nil {
				return nil
			}
		}
		return fmt.Errorf("fields: no placement of the error field among %q matches the output", rest)
	}
	return matchFields(body, pos, first, order, ev)
}

func matchFields(body []byte, pos int, first bool, order []string, ev *jsonv.Node) error {
	for _, name := range order {
		if !first {
			if pos >= len(body) || body[pos] != ' ' {
				return fmt.Errorf("expected a single space before field %q at offset %d", name, pos)
			}
			pos++
		}
		first = false
		used, err := matchField(body[pos:], name, ev.Get(name))
		if err != nil {
			return fmt.Errorf("at offset %d: %v", pos, err)
		}
		pos += used
	}
	if pos != len(body) {
		return fmt.Errorf("unexpected trailing output %q after the last specified field (fields specified: %q)", trunc120(string(body[pos:])), order)
	}
	return nil
}

// failOut16 accepts a few bytes, then fails.
type failOut16 struct{ accept int }

func (f *failOut16) Write(p []byte) (int, error) {
	if len(p) <= f.accept {
		f.accept -= len(p)
		return len(p), nil
	}
	n := f.accept
	f.accept = 0
	return n, fmt.Errorf("destination failed")
}

var c16zones = []struct {
	n string
	l *time.Location
}{{"nil(TZ=UTC)", nil}, {"UTC", time.UTC}, {"+05:30", time.FixedZone("IST", 5*3600+1800)}, {"-08:00", time.FixedZone("", -8*3600)}}

func c16(args []string) int {
	f := mustFlags(args)
	out := evid.New("C16")
	if time.Local.String() != "UTC" {
		fmt.Println("c16 must run with TZ=UTC (TimeLocation nil means time.Local)")
		return 2
	}
	total := f.N(80000, 4000000)
	x := &gen.Exec{}
	var hits [9]map[string]int
	for idx := 0; idx < total; idx++ {
		if !f.Mine(idx) {
			continue
		}
		r := rng.New(f.Seed, 0xc16, uint64(idx))
		g := &gen.G{R: r, Hits: &hits}
		g.V = gen.V{R: r, SafeKeys: true, Big: r.Chance(1, 60)}
		g.P = gen.Profile{MaxDepth: 3}
		st := gen.DefaultSettings()
		st.TimeFieldFormat = []string{"", zerolog.TimeFormatUnixMs, zerolog.TimeFormatUnixMicro, zerolog.TimeFormatUnixNano, time.RFC3339, time.RFC3339Nano}[r.Intn(6)]
		z := c16zones[r.Intn(len(c16zones))]
		if z.l == nil || z.l == time.UTC {
			// layouts without zone information are unambiguous only when TimeLocation is UTC (TZ=UTC here)
			if r.Chance(1, 4) {
				st.TimeFieldFormat = []string{time.UnixDate, "2006-01-02 15:04:05.000000", time.Kitchen}[r.Intn(3)]
			}
		}
		// the instant: anywhere in 1840-2100, or an edge (the epoch, just before it, exact seconds, midnight)
		switch r.Intn(8) {
		case 0:
			st.Now = time.Unix([]int64{0, -1, 1, 86400, -86400, 951782400, 4102444799, -4102444800}[r.Intn(8)], 0).UTC()
		case 1:
			st.Now = time.Unix(int64(r.Intn(8204889600))-4102444800, 0).UTC()
		case 2:
			st.Now = time.Unix((int64(r.Intn(94000))-47000)*86400, int64([]int{0, 1, 999999999, 500000000}[r.Intn(4)])).UTC()
		default:
			st.Now = time.Unix(int64(r.Intn(8204889600))-4102444800, int64(r.Intn(1000000000))).UTC()
		}
		// names of the part fields
		if r.Chance(1, 4) {
			st.TimestampFieldName = []string{"ts", "@t", "when"}[r.Intn(3)]
		}
		if r.Chance(1, 4) {
			st.LevelFieldName = []string{"lvl", "severity"}[r.Intn(2)]
		}
		if r.Chance(1, 4) {
			st.MessageFieldName = []string{"msg", "text"}[r.Intn(2)]
		}
		st.DurationFieldInteger = r.Bool()
		st.FloatingPointPrecision = []int{-1, -1, 2}[r.Intn(3)]
		st.ErrMarshal = []int{0, 0, 1, 2}[r.Intn(4)]
		if r.Chance(1, 4) {
			st.ErrorFieldName = "err"
		}
		g.V.AvoidKeys = []string{"time", "level", "message", "caller", st.TimestampFieldName, st.LevelFieldName, st.MessageFieldName}
		stdParts := []string{st.TimestampFieldName, st.LevelFieldName, "caller", st.MessageFieldName}
		g.S = &st
		maxOps := 8
		if idx%8 == 5 {
			maxOps = 48 // events with dozens of fields (sorting and ordering of many names)
		}
		p := g.GenProgram(4, 2, maxOps)
		// every event carries a timestamp and a standard level
		p.Chain = append([]gen.Step{{Kind: "WithTimestamp"}}, p.Chain...)
		for i := range p.Events {
			ev := &p.Events[i]
			if ev.Entry == "WithLevel" {
				ev.Level = zerolog.Level(r.Intn(7) - 1)
			}
		}
		// drop Reset steps (they do not remove the timestamp hook, fine) and Level steps that would filter
		// random console configuration
		c := &c16cfg{}
		if r.Chance(2, 3) {
			perm := append([]string{}, stdParts...)
			for i := len(perm) - 1; i > 0; i-- {
				j := r.Intn(i + 1)
				perm[i], perm[j] = perm[j], perm[i]
			}
			c.PartsOrder = perm[:r.Intn(5)] // possibly empty but not nil: no parts at all
		}
		if r.Chance(1, 3) {
			c.PartsExclude = []string{stdParts[r.Intn(4)]}
			if r.Chance(1, 3) {
				c.PartsExclude = append(c.PartsExclude, stdParts[r.Intn(4)], "nosuchpart")
			}
		}
		c.TimeFormat = []string{"", time.Kitchen, time.RFC3339, "2006-01-02 15:04:05.000000", time.RFC1123Z, "15:04"}[r.Intn(6)]
		c.Loc, c.LocName = z.l, z.n
		restore := p.S.Apply()
		res := x.Run(p)
		restore()
		if res.Panic != nil {
			out.Violate(sigOf("panic", fmt.Sprint(res.Panic)), fmt.Sprintf("panic %v", res.Panic), map[string]interface{}{"check": "c16", "index": idx, "program": p.Describe()})
			continue
		}
		h := rng.HashStr(c.String())
		nrend := 0
		for _, ws := range res.Writes {
			for _, w := range ws {
				ev, err := jsonv.ParseLine(w.P)
				if err != nil {
					continue // C01's business
				}
				// field-dependent configuration: pick FieldsOrder / FieldsExclude among actual names sometimes
				var names []string
				for _, kv := range ev.Obj {
					names = append(names, kv.Key)
				}
				c.FieldsOrder, c.FieldsExclude = nil, nil
				if len(names) > 16 {
					out.Count("events_with_more_than_16_members", 1)
				}
				if (r.Chance(1, 3) || len(names) > 16) && len(names) > 0 {
					for k := 0; k < 1+r.Intn(3); k++ {
						// no duplicates: "in that order" is ambiguous for a name listed twice
						if nm := names[r.Intn(len(names))]; !inList(c.FieldsOrder, nm) {
							c.FieldsOrder = append(c.FieldsOrder, nm)
						}
					}
					if r.Bool() {
						c.FieldsOrder = append(c.FieldsOrder, "absent")
					}
				}
				if r.Chance(1, 3) && len(names) > 0 {
					c.FieldsExclude = []string{names[r.Intn(len(names))], "nosuch"}
				}
				// how a missing or non-standard level is shown is not specified: the level part is then excluded, and
				// everything else is still judged
				savedPE := c.PartsExclude
				if lv := ev.Get(p.S.LevelFieldName); lv == nil || lv.Kind != jsonv.String || fmtLevels[lv.Str] == "" {
					c.PartsExclude = append(append([]string{}, c.PartsExclude...), p.S.LevelFieldName)
					out.Count("events_without_a_standard_level", 1)
				}
				rs := p.S.Apply()
				if nrend%3 == 0 {
					// some other ConsoleWriter of the process has just failed to get a line out (its destination
					// refused it, or took only a few bytes): that must not leak into what this one renders
					bad := zerolog.ConsoleWriter{Out: &failOut16{accept: []int{0, 7, 1}[nrend/3%3]}, NoColor: true}
					bad.Write(w.P)
					out.Count("renderings_after_a_failed_write_elsewhere", 1)
				}
				if nrend%5 == 2 {
					// some other ConsoleWriter of the process was configured by editing, in place, the PartsOrder it got from
					// the constructor (swap / delete idiom): its configuration is its own
					other := zerolog.NewConsoleWriter()
					if po := other.PartsOrder; len(po) >= 4 {
						if nrend%2 == 0 {
							po[0], po[1] = po[1], po[0]
						} else {
							other.PartsOrder = append(po[:2], po[3:]...)
						}
					}
					out.Count("renderings_after_another_writer_edited_its_parts_order", 1)
				}
				var ob bytes.Buffer
				cw := zerolog.ConsoleWriter{Out: &ob, NoColor: true, TimeFormat: c.TimeFormat, TimeLocation: c.Loc, PartsOrder: c.PartsOrder,
					PartsExclude: c.PartsExclude, FieldsOrder: c.FieldsOrder, FieldsExclude: c.FieldsExclude}
				if idx%2 == 1 {
					// the same configuration through the constructor and an option
					cc := c
					cw = zerolog.NewConsoleWriter(func(w *zerolog.ConsoleWriter) {
						w.Out, w.NoColor, w.TimeFormat, w.TimeLocation = &ob, true, cc.TimeFormat, cc.Loc
						if cc.PartsOrder != nil {
							w.PartsOrder = cc.PartsOrder
						}
						w.PartsExclude, w.FieldsOrder, w.FieldsExclude = cc.PartsExclude, cc.FieldsOrder, cc.FieldsExclude
						if nrend%3 == 1 {
							// constructed with another configuration and reconfigured afterwards (below): the exported fields
							// are the configuration
							w.FieldsOrder, w.FieldsExclude, w.PartsExclude = []string{"zz-first", "k", "a"}, []string{"zz-none"}, nil
						}
					})
					if nrend%3 == 1 {
						cw.FieldsOrder, cw.FieldsExclude, cw.PartsExclude = cc.FieldsOrder, cc.FieldsExclude, cc.PartsExclude
						out.Count("writers_reconfigured_after_construction", 1)
					}
				}
				n, werr := cw.Write(w.P)
				first := append([]byte{}, ob.Bytes()...)
				ob.Reset()
				cw2 := cw
				n2, werr2 := cw2.Write(w.P)
				rs()
				nrend++
				rep := map[string]interface{}{"check": "c16", "seed": f.Seed, "tier": f.Tier, "index": idx, "config": c.String(), "settings": p.S.String(),
					"event": fmt.Sprintf("%q", clipb(w.P)), "console": fmt.Sprintf("%q", clipb(first))}
				if werr != nil || n != len(w.P) || werr2 != nil || n2 != len(w.P) {
					out.Violate("write-result", fmt.Sprintf("ConsoleWriter.Write returned (%d, %v) for a %d-byte event zerolog emitted", n, werr, len(w.P)), rep)
					continue
				}
				if !bytes.Equal(first, ob.Bytes()) {
					out.Violate("nondeterministic", fmt.Sprintf("two renderings of the same event and configuration differ: %q vs %q", clipb(first), clipb(ob.Bytes())), rep)
					continue
				}
				err = checkConsole(first, ev, c, &p.S)
				c.PartsExclude = savedPE
				if err != nil {
					if strings.HasPrefix(err.Error(), "generator:") {
						out.Count("skipped_outside_statement", 1)
						continue
					}
					out.Violate(sigOf("render", err.Error()), fmt.Sprintf("ConsoleWriter output differs from the specified rendering: %v; config %s; event %q; output %q", err, c, clipb(w.P), clipb(first)), rep)
				}
				h = h*0x100000001b3 ^ rng.Hash64(first)
				if idx%(total/5+1) == 0 {
					out.Sample(map[string]interface{}{"config": c.String(), "event": fmt.Sprintf("%q", clipb(w.P)), "console": fmt.Sprintf("%q", clipb(first))}, 5)
				}
			}
		}
		out.Count("renderings_checked", int64(nrend))
		out.Case(h, nrend > 0)
	}
	out.Finish(f)
	return 0
}
