package main

import (
	"bytes"
	"fmt"
	"strings"

	"github.com/rs/zerolog"
	"github.com/rs/zerolog/diode/verifh/cborv"
	"github.com/rs/zerolog/diode/verifh/evid"
	"github.com/rs/zerolog/diode/verifh/jsonv"
)

type evBufW struct{ evs [][]byte }

func (w *evBufW) Write(p []byte) (int, error) {
	w.evs = append(w.evs, append([]byte(nil), p...))
	return len(p), nil
}

// ctxReuse: one Context VALUE used more than once (round 16). A logger is taken from it, then the same value is
// continued - Reset() and new fields, or simply more fields - and a second logger is taken. Every event of both loggers
// must still be one well-formed item (JSON object / CBOR map) and byte-identical to what a logger built by the same
// calls on a fresh Context emits: the first logger's context bytes are its own once Logger() has returned.
func ctxReuse(out *evid.Out, prop string) {
	wellFormed := func(b []byte) error {
		if isBinaryBuild() {
			_, err := cborv.Parse(b)
			return err
		}
		if len(b) == 0 || b[len(b)-1] != '\n' || bytes.Count(b, []byte("\n")) != 1 {
			return fmt.Errorf("not exactly one line")
		}
		_, err := jsonv.ParseLine(b)
		return err
	}
	type step func(c zerolog.Context, n int) zerolog.Context
	first := []step{
		func(c zerolog.Context, n int) zerolog.Context {
			return c.Str("aaaa", strings.Repeat("b", n)).Int("n", 300)
		},
		func(c zerolog.Context, n int) zerolog.Context { return c.Ints("is", make([]int, n%40)).Bool("t", true) },
		func(c zerolog.Context, n int) zerolog.Context { return c },
	}
	second := []step{
		func(c zerolog.Context, n int) zerolog.Context { return c.Reset().Str("x", "y") },
		func(c zerolog.Context, n int) zerolog.Context {
			return c.Reset().Str("k", strings.Repeat("a much longer value ", 1+n%7))
		},
		func(c zerolog.Context, n int) zerolog.Context { return c.Reset() },
		func(c zerolog.Context, n int) zerolog.Context { return c.Str("more", strings.Repeat("z", n%50)) },
		func(c zerolog.Context, n int) zerolog.Context { return c.Reset().Dict("d", zerolog.Dict().Int("i", n)) },
	}
	emit := func(l zerolog.Logger, w *evBufW) []byte {
		n0 := len(w.evs)
		l.Info().Str("f", "v").Msg("one")
		if len(w.evs) != n0+1 {
			return nil
		}
		return w.evs[n0]
	}
	for _, n := range []int{0, 1, 5, 23, 24, 100, 480, 600} {
		for fi, f1 := range first {
			for si, f2 := range second {
				for _, baseCtx := range []bool{false, true} {
					mk := func(w *evBufW) zerolog.Context {
						b := zerolog.New(w)
						if baseCtx {
							b = b.With().Str("base", "ctx").Logger()
						}
						return f1(b.With(), n)
					}
					w := &evBufW{}
					ctx := mk(w)
					l1 := ctx.Logger()
					before := emit(l1, w)
					ctx2 := f2(ctx, n) // the SAME value continued
					l2 := ctx2.Logger()
					after1 := emit(l1, w)
					got2 := emit(l2, w)
					tw := &evBufW{}
					want2 := emit(f2(mk(tw), n).Logger(), tw)
					rep := map[string]interface{}{"check": strings.ToLower(prop), "n": n, "first": fi, "second": si, "base_context": baseCtx}
					desc := fmt.Sprintf("ctx := With()<fields %d, n=%d>; l1 := ctx.Logger(); l2 := <continuation %d>(ctx).Logger() (base context %v)", fi, n, si, baseCtx)
					for name, b := range map[string][]byte{"l1 before": before, "l1 afterwards": after1, "l2": got2} {
						if b == nil {
							out.Violate("context-reuse:no-single-write", desc+": "+name+": not exactly one Write", rep)
						} else if err := wellFormed(b); err != nil {
							out.Violate("context-reuse:ill-formed", fmt.Sprintf("%s: the event of %s is not well-formed (%v): %q", desc, name, err, b), rep)
						}
					}
					if !bytes.Equal(before, after1) {
						out.Violate("context-reuse:first-logger-changed", fmt.Sprintf("%s: l1 emitted %q before and %q after the Context value was continued", desc, before, after1), rep)
					}
					if !bytes.Equal(got2, want2) {
						out.Violate("context-reuse:second-logger", fmt.Sprintf("%s: l2 emitted %q, the same calls on a fresh Context give %q", desc, got2, want2), rep)
					}
					out.Count("context_value_reuse_cases", 1)
					out.Evaluations++
				}
			}
		}
	}
}
