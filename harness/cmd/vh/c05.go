package main

import (
	"context"
	"errors"
	"fmt"
	"io"
	"strings"
	"sync"
	"sync/atomic"

	"github.com/rs/zerolog"
	"github.com/rs/zerolog/diode/verifh/evid"
	"github.com/rs/zerolog/diode/verifh/gen"
	"github.com/rs/zerolog/diode/verifh/jsonv"
	"github.com/rs/zerolog/diode/verifh/rng"
)

func init() { commands["c05"] = c05 }

type ck5 struct{}

func ctxVal(c context.Context) string {
	if v, ok := c.Value(ck5{}).(string); ok {
		return v
	}
	return "bg"
}

// hook5 adds a field whose value is what GetCtx gives inside the hook.
type hook5 struct{ id int }

func (h hook5) Run(e *zerolog.Event, l zerolog.Level, m string) {
	e.Str(fmt.Sprintf("h%d", h.id), ctxVal(e.GetCtx()))
}

// ctxReader is an object marshaler that records what GetCtx gives it.
type ctxReader struct{}

func (ctxReader) MarshalZerologObject(e *zerolog.Event) { e.Str("ctx", ctxVal(e.GetCtx())) }

type node5 struct {
	id      int
	parent  int
	step    string
	l       zerolog.Logger
	w       *gen.Rec
	fields  []gen.KVI
	hooks   []int
	level   zerolog.Level
	stack   bool
	goctx   string
	sampler bool
	samp    *cntS5    // nearest Sample ancestor's sampler (nil: none)
	plainW  bool      // Output was given a plain io.Writer (no WriteLevel)
	ops     []*gen.Op // ops of the step (for description)
}

// cntS5 is a sampler with an identity: it counts how often it is consulted and admits or rejects everything.
type cntS5 struct {
	id    int
	n     int64
	admit bool
}

func (c *cntS5) Sample(zerolog.Level) bool { atomic.AddInt64(&c.n, 1); return c.admit }

type plainW5 struct{ w io.Writer }

func (p plainW5) Write(b []byte) (int, error) { return p.w.Write(b) }

func (n *node5) desc() string {
	s := fmt.Sprintf("n%d=n%d.%s", n.id, n.parent, n.step)
	if len(n.ops) > 0 {
		var d []string
		for _, o := range n.ops {
			d = append(d, o.Describe())
		}
		s += "(" + trunc120(strings.Join(d, " ")) + ")"
	}
	return s
}

type tree5 struct {
	force int // if non-zero: the step code of the next derivation
	nodes []*node5
	x     *gen.Exec
	g     *gen.G
	st    gen.Settings
	hookN int
	samps []*cntS5
}

// sampCounts snapshots how often each sampler of the tree has been consulted.
func (t *tree5) sampCounts() []int64 {
	c := make([]int64, len(t.samps))
	for i, s := range t.samps {
		c[i] = atomic.LoadInt64(&s.n)
	}
	return c
}

// derive creates one child of parent p.
func (t *tree5) derive(p *node5, r *rng.R) *node5 {
	n := &node5{id: len(t.nodes), parent: p.id, w: p.w, fields: p.fields[:len(p.fields):len(p.fields)], hooks: p.hooks[:len(p.hooks):len(p.hooks)],
		level: p.level, stack: p.stack, goctx: p.goctx, sampler: p.sampler, samp: p.samp, plainW: p.plainW}
	withOps := func(k int) (zerolog.Context, []*gen.Op) {
		c := p.l.With()
		var ops []*gen.Op
		st := n.stack
		for i := 0; i < k; i++ {
			var op *gen.Op
			if r.Chance(1, 3) {
				// padding sized to straddle the 500-byte context capacity
				key := t.g.NewKey()
				pad := strings.Repeat("p", []int{60, 120, 250, 400, 520}[r.Intn(5)])
				op = gen.MkOp("Str", key, pad, &gen.Intent{K: gen.IStr, S: pad})
			} else {
				op = t.g.KeyedOp(gen.FeContext, 2, &st)
			}
			ops = append(ops, op)
			c = t.x.ApplyContext(c, op)
			for _, kv := range op.Out {
				n.fields = append(n.fields, kv)
			}
		}
		return c, ops
	}
	k0 := r.Intn(12)
	if t.force != 0 {
		k0, t.force = t.force, 0
	}
	switch k := k0; {
	case k == 100:
		n.step = "With.Timestamp"
		n.hooks = append(n.hooks, -1)
		n.l = p.l.With().Timestamp().Logger()
	case k == 101:
		n.step = "With.CallerFar"
		n.hooks = append(n.hooks, -2)
		n.l = p.l.With().CallerWithSkipFrameCount(100000).Logger()
	case k < 4:
		n.step = "With"
		c, ops := withOps(1 + r.Intn(3))
		n.ops = ops
		n.l = c.Logger()
	case k == 4:
		n.step = "With+UpdateContext"
		c, ops := withOps(r.Intn(2))
		l := c.Logger()
		st := n.stack
		var uops []*gen.Op
		for i, m := 0, 1+r.Intn(2); i < m; i++ {
			uops = append(uops, t.g.KeyedOp(gen.FeContext, 2, &st))
		}
		l.UpdateContext(func(c zerolog.Context) zerolog.Context {
			for _, op := range uops {
				c = t.x.ApplyContext(c, op)
			}
			return c
		})
		for _, op := range uops {
			n.fields = append(n.fields, op.Out...)
		}
		n.ops = append(ops, uops...)
		n.l = l
	case k == 5:
		n.step = "Level"
		n.level = zerolog.Level(r.Intn(4) - 1)
		if r.Chance(1, 6) {
			// a disabled (or panic-only) node: nothing is emitted through it, but whatever is derived below it and
			// re-enabled by a later Level step must still carry the whole path
			n.level = []zerolog.Level{zerolog.Disabled, zerolog.PanicLevel, zerolog.NoLevel}[r.Intn(3)]
			n.step = fmt.Sprintf("Level(%d)", n.level)
		}
		n.l = p.l.Level(n.level)
	case k == 6:
		n.step = "Sample"
		if p.samp != nil && r.Chance(1, 3) {
			// Sample(nil): the node and everything below it are unsampled again
			n.step = "Sample(nil)"
			n.samp = nil
			n.l = p.l.Sample(nil)
			break
		}
		n.sampler = true
		n.samp = &cntS5{id: len(t.samps), admit: !r.Chance(1, 6)}
		t.samps = append(t.samps, n.samp)
		if n.samp.admit {
			n.step = "Sample(admit)"
		} else {
			n.step = "Sample(reject)"
		}
		n.l = p.l.Sample(n.samp)
	case k == 7 || k == 8:
		n.step = "Hook"
		t.hookN++
		n.hooks = append(n.hooks, t.hookN)
		hs := []zerolog.Hook{hook5{t.hookN}}
		if r.Bool() {
			t.hookN++
			n.hooks = append(n.hooks, t.hookN)
			hs = append(hs, hook5{t.hookN})
		}
		n.l = p.l.Hook(hs...)
		// the caller's slice is the caller's: reusing it afterwards changes nothing in the logger just derived
		for j := range hs {
			hs[j] = hook5{9000 + j}
		}
	case k == 9:
		n.step = "Output"
		n.w = &gen.Rec{}
		if n.plainW = r.Chance(1, 3); n.plainW {
			n.l = p.l.Output(plainW5{n.w})
		} else {
			n.l = p.l.Output(n.w)
		}
	case k == 10 && p.goctx != "" && r.Chance(1, 3):
		// Ctx(nil): the path has no Go context from here on (hooks and marshalers see the background context)
		n.step = "With.Ctx(nil)"
		n.goctx = ""
		n.l = p.l.With().Ctx(nil).Logger()
	case k == 10:
		n.step = "With.Ctx"
		n.goctx = fmt.Sprintf("ctx-n%d", n.id)
		n.l = p.l.With().Ctx(context.WithValue(context.Background(), ck5{}, n.goctx)).Logger()
	case k == 11 && r.Bool():
		// the built-in hooks are added through the Context: -1 the timestamp hook (a "time" member), -2 a caller hook
		// whose skip count lies beyond the stack (no member, but a slot in the hook list)
		if r.Bool() {
			n.step = "With.Timestamp"
			n.hooks = append(n.hooks, -1)
			n.l = p.l.With().Timestamp().Logger()
		} else {
			n.step = "With.CallerFar"
			n.hooks = append(n.hooks, -2)
			n.l = p.l.With().CallerWithSkipFrameCount(100000).Logger()
		}
	default:
		n.step = "With.Stack"
		n.stack = true
		n.l = p.l.With().Stack().Logger()
	}
	t.nodes = append(t.nodes, n)
	return n
}

type admitAll5 struct{}

func (admitAll5) Sample(zerolog.Level) bool { return true }

var err5 = errors.New("e5")

// expected fields of an event logged from node n with the given shape.
func (t *tree5) expect(n *node5, lvl zerolog.Level, shape int, evctx string, id string) []gen.KVI {
	return t.expectObs(n, lvl, shape, evctx, id, nil)
}

// expectObs: obs gives, for the probes of shape 3, the Go-context value the event actually shows at a path; it is
// taken over into the expectation when it is the node's / event's own context or the background context (the
// statement allows either), so that only a foreign context fails the match.
func (t *tree5) expectObs(n *node5, lvl zerolog.Level, shape int, evctx string, id string, obs func(path ...string) string) []gen.KVI {
	S := func(s string) *gen.Intent { return gen.Str(s) }
	f := []gen.KVI{{Key: "level", Val: S(lvl.String())}}
	f = append(f, n.fields...)
	ctx := n.goctx
	if evctx != "" {
		ctx = evctx
	}
	if ctx == "" {
		ctx = "bg"
	}
	f = append(f, gen.KVI{Key: "id", Val: S(id)})
	switch shape {
	case 1: // Err: stack flag of the node decides whether a stack field precedes the error
		if n.stack {
			if sin, ok := t.stStack(); ok {
				f = append(f, gen.KVI{Key: "stack", Val: sin})
			}
		}
		f = append(f, gen.KVI{Key: "error", Val: S("e5")})
	case 2: // marshalers reading GetCtx
		f = append(f, gen.KVI{Key: "o", Val: gen.Obj(gen.KVI{Key: "ctx", Val: S(ctx)})})
		f = append(f, gen.KVI{Key: "a", Val: gen.Arr(gen.Obj(gen.KVI{Key: "ctx", Val: S("bg")}))})
		f = append(f, gen.KVI{Key: "d", Val: gen.Obj(gen.KVI{Key: "o", Val: gen.Obj(gen.KVI{Key: "ctx", Val: S("bg")})})})
	case 3: // further places where user code can read GetCtx
		own := func(path ...string) *gen.Intent {
			if obs != nil {
				if v := obs(path...); v == "bg" || v == ctx {
					return S(v)
				}
			}
			return S(ctx)
		}
		f = append(f, gen.KVI{Key: "fo", Val: gen.Obj(gen.KVI{Key: "ctx", Val: own("fo", "ctx")})})
		f = append(f, gen.KVI{Key: "fc", Val: own("fc")})
		f = append(f, gen.KVI{Key: "ctx", Val: own("ctx")})
		f = append(f, gen.KVI{Key: "io", Val: gen.Obj(gen.KVI{Key: "ctx", Val: own("io", "ctx")})})
		f = append(f, gen.KVI{Key: "am", Val: gen.Arr(gen.Obj(gen.KVI{Key: "ctx", Val: own("am", "0", "ctx")}))})
		f = append(f, gen.KVI{Key: "errs", Val: gen.Arr(gen.Obj(gen.KVI{Key: "ctx", Val: own("errs", "0", "ctx")}))})
	}
	for _, h := range n.hooks {
		switch h {
		case -1:
			f = append(f, gen.KVI{Key: t.st.TimestampFieldName, Val: &gen.Intent{K: gen.ITime, T: t.st.Now}})
		case -2:
		default:
			f = append(f, gen.KVI{Key: fmt.Sprintf("h%d", h), Val: S(ctx)})
		}
	}
	f = append(f, gen.KVI{Key: "message", Val: S("m")})
	return f
}

func (t *tree5) stStack() (*gen.Intent, bool) { return gen.Str("ST\"K\n"), true }

// open starts an event of the given shape on node n (not finalized).
func (t *tree5) open(n *node5, lvl zerolog.Level, shape int, evctx string, id string) *zerolog.Event {
	e := n.l.WithLevel(lvl)
	if evctx != "" {
		e = e.Ctx(context.WithValue(context.Background(), ck5{}, evctx))
	}
	e = e.Str("id", id)
	switch shape {
	case 1:
		e = e.Err(err5)
	case 2:
		e = e.Object("o", ctxReader{}).Array("a", zerolog.Arr().Object(ctxReader{})).Dict("d", zerolog.Dict().Object("o", ctxReader{}))
	case 4:
		// the documented pattern e.Discard(): the event stays in the caller's hands until it is finalized, and
		// nothing of it may reach a writer - nor may it disturb events opened meanwhile
		e.Discard()
		e = e.Str("late", "field-after-discard")
	case 3:
		e = e.Fields(map[string]interface{}{"fo": ctxReader{}}).
			Func(func(e *zerolog.Event) { e.Str("fc", ctxVal(e.GetCtx())) }).
			EmbedObject(ctxReader{}).
			Interface("io", ctxReader{}).
			Array("am", arrReader{}).
			Errs("errs", []error{errReader{}})
	}
	return e
}

// arrReader is an array marshaler whose element is an object reading GetCtx; errReader an error that marshals
// as such an object.
type arrReader struct{}

func (arrReader) MarshalZerologArray(a *zerolog.Array) { a.Object(ctxReader{}) }

type errReader struct{}

func (errReader) Error() string                         { return "errReader" }
func (errReader) MarshalZerologObject(e *zerolog.Event) { e.Str("ctx", ctxVal(e.GetCtx())) }

// obsOf reads a string at a path of object keys / array indices out of a parsed event.
func obsOf(obj *jsonv.Node) func(path ...string) string {
	return func(path ...string) string {
		n := obj
		for _, k := range path {
			if n == nil {
				return ""
			}
			if n.Kind == jsonv.Array {
				var i int
				fmt.Sscan(k, &i)
				if i >= len(n.Arr) {
					return ""
				}
				n = n.Arr[i]
			} else {
				n = n.Get(k)
			}
		}
		if n == nil {
			return ""
		}
		return n.Str
	}
}

type pending5 struct {
	n     *node5
	lvl   zerolog.Level
	shape int
	evctx string
	id    string
	e     *zerolog.Event
	w0    int
	sc0   []int64 // sampler counters before the event was started
	sc1   []int64 // ... and right after
}

func c05(args []string) int {
	f := mustFlags(args)
	out := evid.New("C05")
	trees := f.N(8000, 300000)
	zerolog.SetGlobalLevel(zerolog.TraceLevel)
	for ti := 0; ti < trees; ti++ {
		if !f.Mine(ti) {
			continue
		}
		c05tree(out, f, ti, false)
	}
	// the stored-Context branching scenario (announced known finding)
	if f.Shard == 0 {
		c05ctxBranch(out)
	}
	out.Finish(f)
	return 0
}

func c05tree(out *evid.Out, f *evid.Flags, ti int, concurrent bool) {
	r := rng.New(f.Seed, 0xc05, uint64(ti))
	st := gen.DefaultSettings()
	st.StackMarshal = 2
	restore := st.Apply()
	defer restore()
	g := &gen.G{R: r, S: &st}
	g.V = gen.V{R: r}
	g.P = gen.Profile{Modelled: true, UniqueKeys: true, MaxDepth: 3}
	t := &tree5{x: &gen.Exec{}, g: g, st: st}
	root := &node5{id: 0, parent: -1, step: "New", w: &gen.Rec{}, level: zerolog.TraceLevel}
	root.l = zerolog.New(root.w)
	t.nodes = []*node5{root}
	maxNodes := 6 + r.Intn(14)
	if f.Thorough() {
		maxNodes = 6 + r.Intn(40)
	}
	evN := 0
	viol := func(sig, desc string) {
		var path []string
		for _, n := range t.nodes {
			path = append(path, n.desc())
		}
		out.Violate(sig, fmt.Sprintf("tree %d: %s", ti, desc), map[string]interface{}{"check": "c05", "seed": f.Seed, "tier": f.Tier, "index": ti, "tree": strings.Join(path, "; ")})
	}
	owner := map[string]*gen.Rec{}
	// logOne emits one event from n and checks it against n's own derivation path
	check := func(p *pending5, when string) {
		ws := p.n.w.W[p.w0:]
		enabled := p.lvl >= p.n.level && (p.n.samp == nil || p.n.samp.admit) && p.shape != 4
		// the sampler of the node's own path - and no other - was consulted, once, iff the level gate passed
		for i := range p.sc0 {
			wantInc := int64(0)
			if p.n.samp != nil && p.n.samp.id == i && p.lvl >= p.n.level {
				wantInc = 1
			}
			if i < len(p.sc1) && p.sc1[i]-p.sc0[i] != wantInc {
				viol("sampler-of-another-path", fmt.Sprintf("%s: starting event %s on node n%d (%s) consulted sampler #%d %d time(s), expected %d (own sampler: %v)", when, p.id, p.n.id, p.n.desc(), i, p.sc1[i]-p.sc0[i], wantInc, p.n.samp != nil && p.n.samp.id == i))
			}
		}
		// events of other pending chains may have landed on the same writer: select by id
		var mine []gen.Write
		for _, w := range ws {
			if strings.Contains(string(w.P), `"id":"`+p.id+`"`) {
				mine = append(mine, w)
			}
		}
		owner[p.id] = p.n.w // checked for every write of every writer at the end of the tree
		if gl := p.n.l.GetLevel(); gl != p.n.level {
			viol("getlevel", fmt.Sprintf("%s: node n%d (%s): GetLevel() = %d, the level of its derivation path is %d", when, p.n.id, p.n.desc(), gl, p.n.level))
		}
		if !enabled {
			if len(mine) != 0 {
				viol("level-leak", fmt.Sprintf("%s: node n%d (level %d) wrote a level-%d event", when, p.n.id, p.n.level, p.lvl))
			}
			return
		}
		if len(mine) != 1 {
			viol("write-count", fmt.Sprintf("%s: node n%d: %d writes for event %s", when, p.n.id, len(mine), p.id))
			return
		}
		obj, err := jsonv.ParseLine(mine[0].P)
		if err != nil {
			viol("invalid", fmt.Sprintf("%s: node n%d: %v: %q", when, p.n.id, err, clipb(mine[0].P)))
			return
		}
		if wl := mine[0]; wl.ByLW == p.n.plainW || (wl.ByLW && wl.Level != p.lvl) {
			viol("write-level", fmt.Sprintf("%s: node n%d: event of level %d reached its destination (plain io.Writer=%v) via WriteLevel=%v with level %d", when, p.n.id, p.lvl, p.n.plainW, wl.ByLW, wl.Level))
		}
		want := t.expectObs(p.n, p.lvl, p.shape, p.evctx, p.id, obsOf(obj))
		if err := gen.MatchFields(obj, want, &st); err != nil {
			sig := "path-mismatch"
			if strings.Contains(err.Error(), `"ctx"`) || strings.Contains(err.Error(), `("h`) {
				sig = "goctx-mismatch"
				if p.n.step == "Output" || hasOutputAncestor(t, p.n) {
					sig = "goctx-mismatch-after-output"
				}
			}
			viol(sig, fmt.Sprintf("%s: node n%d (%s) emitted %q which is not its own derivation path: %v", when, p.n.id, p.n.desc(), clipb(mine[0].P), err))
		}
	}
	logOne := func(n *node5, when string) {
		evN++
		p := &pending5{n: n, lvl: zerolog.Level(r.Intn(5) - 1), shape: r.Intn(4), id: fmt.Sprintf("t%de%d", ti, evN), w0: len(n.w.W)}
		if r.Chance(1, 6) {
			p.evctx = fmt.Sprintf("evctx-%d", evN)
		}
		p.sc0 = t.sampCounts()
		e := t.open(n, p.lvl, p.shape, p.evctx, p.id)
		p.sc1 = t.sampCounts()
		e.Msg("m")
		check(p, when)
		out.Count("events_checked", 1)
	}
	mode := ti % 3 // 0 create all then use; 1 depth-first interleaved; 2 re-log every ancestor after every derivation
	// a directed branch in a quarter of the trees: two Hook steps, a built-in hook added through the Context, and then
	// three siblings below that node which add different built-in hooks (hook lists with spare capacity, see C05)
	var plan []int
	planMid := -1
	if ti%4 == 1 {
		plan = []int{7, 8, 100, 101, 100, 101}
		maxNodes += len(plan)
	}
	for len(t.nodes) < maxNodes {
		// bias towards deep chains and towards branching from the same parent
		var p *node5
		if len(plan) > 0 && len(t.nodes) >= 3 {
			t.force = plan[0]
			plan = plan[1:]
			p = t.nodes[len(t.nodes)-1]
			if planMid >= 0 {
				p = t.nodes[planMid]
			} else if len(plan) == 3 {
				planMid = len(t.nodes) // the node about to be derived (first built-in hook) is the siblings' parent
			}
			n := t.derive(p, r)
			_ = n
			out.Count("directed_builtin_hook_branches", 1)
			continue
		}
		switch r.Intn(3) {
		case 0:
			p = t.nodes[len(t.nodes)-1]
		case 1:
			p = t.nodes[r.Intn(len(t.nodes))]
		default:
			p = t.nodes[r.Intn((len(t.nodes)+1)/2)]
		}
		n := t.derive(p, r)
		switch mode {
		case 1:
			logOne(n, "after creation")
			logOne(p, "parent after child creation")
		case 2:
			for a := n; a != nil; {
				logOne(a, fmt.Sprintf("ancestor chain after deriving n%d", n.id))
				if a.parent < 0 {
					break
				}
				a = t.nodes[a.parent]
			}
			// siblings too
			for _, s := range t.nodes {
				if s.parent == p.id && s != n {
					logOne(s, fmt.Sprintf("sibling after deriving n%d", n.id))
				}
			}
		}
	}
	// use every node, in random order, several times; keep several events open and finalize permuted
	for round := 0; round < 2; round++ {
		perm := make([]int, len(t.nodes))
		for i := range perm {
			perm[i] = i
		}
		for i := len(perm) - 1; i > 0; i-- {
			j := r.Intn(i + 1)
			perm[i], perm[j] = perm[j], perm[i]
		}
		for i := 0; i < len(perm); {
			k := 1 + r.Intn(4)
			var open []*pending5
			for j := 0; j < k && i < len(perm); j, i = j+1, i+1 {
				n := t.nodes[perm[i]]
				evN++
				p := &pending5{n: n, lvl: zerolog.Level(r.Intn(5) - 1), shape: r.Intn(5), id: fmt.Sprintf("t%de%d", ti, evN), w0: len(n.w.W)}
				if p.shape == 4 {
					out.Count("discarded_events_kept_open", 1)
				}
				if r.Chance(1, 5) {
					p.evctx = fmt.Sprintf("evctx-%d", evN)
				}
				p.sc0 = t.sampCounts()
				p.e = t.open(n, p.lvl, p.shape, p.evctx, p.id)
				p.sc1 = t.sampCounts()
				open = append(open, p)
			}
			for j := len(open) - 1; j > 0; j-- {
				q := r.Intn(j + 1)
				open[j], open[q] = open[q], open[j]
			}
			for _, p := range open {
				p.e.Msg("m")
			}
			for _, p := range open {
				check(p, "kept-open batch")
				out.Count("events_checked", 1)
			}
		}
	}
	// destination check: every write that carries a known id must sit in the writer of the node that logged it
	seenW := map[*gen.Rec]bool{}
	for _, n := range t.nodes {
		if seenW[n.w] {
			continue
		}
		seenW[n.w] = true
		for _, w := range n.w.W {
			i := strings.Index(string(w.P), `"id":"`)
			if i < 0 {
				continue
			}
			rest := string(w.P[i+6:])
			j := strings.IndexByte(rest, '"')
			if j < 0 {
				continue
			}
			if ow, ok := owner[rest[:j]]; ok && ow != n.w {
				viol("wrong-destination", fmt.Sprintf("event %s reached the writer of node n%d, not the writer of the node that logged it", rest[:j], n.id))
			}
		}
	}
	nOut, nCtx := 0, 0
	for _, n := range t.nodes {
		if n.step == "Output" {
			nOut++
		}
		if n.step == "With.Ctx" {
			nCtx++
		}
		if strings.HasPrefix(n.step, "Sample") {
			out.Count("step_Sample", 1)
		}
		if strings.HasPrefix(n.step, "Level(") {
			out.Count("step_Level_disabling", 1)
			for _, c := range t.nodes {
				for a := c; a.parent >= 0; a = t.nodes[a.parent] {
					if a == n && c != n && c.level <= zerolog.ErrorLevel {
						out.Count("nodes_reenabled_below_a_disabled_node", 1)
						break
					}
				}
			}
		}
		out.Count("step_"+n.step, 1)
	}
	if concurrent || ti%10 == 0 {
		c05concurrent(out, t, ti, r, viol)
	}
	out.Case(rng.HashStr(fmt.Sprint(ti, len(t.nodes), evN, f.Seed)), len(t.nodes) >= 4)
	if ti%(1+f.N(8000, 300000)/5) == 0 {
		var path []string
		for _, n := range t.nodes {
			path = append(path, n.desc())
		}
		s := map[string]interface{}{"tree": strings.Join(path, "; ")}
		if len(root.w.W) > 0 {
			s["an_event"] = string(clipb(root.w.W[len(root.w.W)-1].P))
		}
		out.Sample(s, 4)
	}
}

func hasOutputAncestor(t *tree5, n *node5) bool {
	for a := n; a.parent >= 0; a = t.nodes[a.parent] {
		if a.step == "Output" {
			return true
		}
	}
	return false
}

// c05concurrent: one goroutine per node logs through it while it and the others derive further children (With,
// Hook, Level, Sample, Output - rotating) from the shared nodes and log through those; every event - the node's
// and the throw-away child's - must still be its own path, and every sampler must have been consulted exactly
// as often as events passed the level gate on the paths below it.
func c05concurrent(out *evid.Out, t *tree5, ti int, r *rng.R, viol func(string, string)) {
	var wg sync.WaitGroup
	start := make(chan struct{})
	type res struct {
		n     *node5 // the node whose path the event must show (a temporary child node for child events)
		id    string
		shape int
	}
	var mu sync.Mutex
	var done []res
	sc0 := t.sampCounts()
	wantInc := make([]int64, len(t.samps))
	hookBase := int64(t.hookN + 1000)
	for _, n := range t.nodes {
		wg.Add(1)
		go func(n *node5) {
			defer wg.Done()
			<-start
			for i := 0; i < 6; i++ {
				id := fmt.Sprintf("t%dc%d-%d", ti, n.id, i)
				t.open(n, zerolog.ErrorLevel, i%4, "", id).Msg("m")
				// derive and use a throw-away child of this (shared) node
				child := &node5{id: -1, parent: n.id, w: n.w, fields: n.fields[:len(n.fields):len(n.fields)], hooks: n.hooks[:len(n.hooks):len(n.hooks)],
					level: n.level, stack: n.stack, goctx: n.goctx, samp: n.samp, plainW: n.plainW}
				switch (n.id + i) % 5 {
				case 0, 1:
					child.l = n.l.With().Str("tmp", id).Logger()
					child.fields = append(child.fields, gen.KVI{Key: "tmp", Val: gen.Str(id)})
				case 2:
					h := int(atomic.AddInt64(&hookBase, 1))
					child.l = n.l.Hook(hook5{h})
					child.hooks = append(child.hooks, h)
				case 3:
					child.level = zerolog.WarnLevel
					child.l = n.l.Level(zerolog.WarnLevel)
				default:
					child.w = &gen.Rec{}
					child.l = n.l.Output(child.w)
				}
				cid := id + "-child"
				t.open(child, zerolog.ErrorLevel, 0, "", cid).Msg("m")
				mu.Lock()
				done = append(done, res{n, id, i % 4}, res{child, cid, 0})
				if n.samp != nil {
					// the node's event and the child's consult the same sampler, each iff its own level gate passes
					if zerolog.ErrorLevel >= n.level {
						wantInc[n.samp.id]++
					}
					if zerolog.ErrorLevel >= child.level {
						wantInc[n.samp.id]++
					}
				}
				mu.Unlock()
			}
		}(n)
	}
	close(start)
	wg.Wait()
	for i, c := range t.sampCounts() {
		if c-sc0[i] != wantInc[i] {
			viol("concurrent-sampler-count", fmt.Sprintf("sampler #%d was consulted %d times during the concurrent phase, the events on the paths below it account for %d", i, c-sc0[i], wantInc[i]))
		}
	}
	for _, d := range done {
		var mine []gen.Write
		d.n.w.Lock()
		for _, w := range d.n.w.W {
			if strings.Contains(string(w.P), `"id":"`+d.id+`"`) {
				mine = append(mine, w)
			}
		}
		d.n.w.Unlock()
		enabled := zerolog.ErrorLevel >= d.n.level && (d.n.samp == nil || d.n.samp.admit)
		if !enabled {
			if len(mine) != 0 {
				viol("concurrent-level-leak", fmt.Sprintf("node n%d (child of n%d): a rejected event %s was written", d.n.id, d.n.parent, d.id))
			}
			continue
		}
		if len(mine) != 1 {
			viol("concurrent-write-count", fmt.Sprintf("node n%d (child of n%d): %d writes for event %s", d.n.id, d.n.parent, len(mine), d.id))
			continue
		}
		obj, err := jsonv.ParseLine(mine[0].P)
		if err != nil {
			viol("invalid", fmt.Sprintf("concurrent: %v: %q", err, clipb(mine[0].P)))
			continue
		}
		want := t.expectObs(d.n, zerolog.ErrorLevel, d.shape, "", d.id, obsOf(obj))
		if err := gen.MatchFields(obj, want, &t.st); err != nil {
			viol("concurrent-path-mismatch", fmt.Sprintf("node n%d (child of n%d) emitted %q under concurrent derivation/logging: %v", d.n.id, d.n.parent, clipb(mine[0].P), err))
		}
		out.Count("concurrent_events_checked", 1)
	}
}

// c05ctxBranch: two loggers built from one stored Context value.
func c05ctxBranch(out *evid.Out) {
	w := &gen.Rec{}
	l := zerolog.New(w)
	for pad := 0; pad < 3; pad++ {
		c := l.With().Str("base", strings.Repeat("b", []int{1, 100, 480}[pad]))
		a := c.Str("branch", "A").Logger()
		b := c.Str("branch", "B").Logger()
		w.W = nil
		a.Log().Msg("x")
		b.Log().Msg("x")
		ga, gb := string(w.W[0].P), string(w.W[1].P)
		if !strings.Contains(ga, `"branch":"A"`) || !strings.Contains(gb, `"branch":"B"`) {
			sig := "ctx-branch:other"
			if strings.Contains(ga, `"branch":"B"`) && strings.Contains(gb, `"branch":"B"`) {
				sig = "ctx-branch:first-branch-emits-second-branch-bytes"
			}
			out.Violate(sig, fmt.Sprintf("two loggers derived from one stored Context value: first emits %q, second emits %q", clipb(w.W[0].P), clipb(w.W[1].P)),
				map[string]interface{}{"check": "c05", "scenario": "ctx-branch", "pad": pad})
		}
		out.Count("ctx_branch_cases", 1)
	}
}
