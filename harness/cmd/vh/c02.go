package main

import (
	"bytes"
	"encoding/json"
	"fmt"
	"math"
	"strconv"

	"github.com/rs/zerolog"
	"github.com/rs/zerolog/diode/verifh/evid"
	"github.com/rs/zerolog/diode/verifh/gen"
	"github.com/rs/zerolog/diode/verifh/jsonv"
	"github.com/rs/zerolog/diode/verifh/rng"
)

func init() { commands["c02"] = c02; commands["c02-floats"] = c02floats }

// c02: (a) class-string programs, (b) metamorphic entry-point programs for every scalar kind.
func c02(args []string) int {
	f := mustFlags(args)
	out := evid.New("C02")
	L := 2
	if f.Thorough() {
		L = 3
	}
	nExh := gen.NClassStrings(L)
	nMeta := f.N(400000, 10000000)
	total := nExh + nMeta
	var hits [9]map[string]int
	x := &gen.Exec{}
	kinds := gen.MetaKinds()
	for idx := 0; idx < total; idx++ {
		if !f.Mine(idx) {
			continue
		}
		r := rng.New(f.Seed, 0xc02, uint64(idx))
		g := &gen.G{R: r, Hits: &hits}
		g.V = gen.V{R: r, Big: r.Chance(1, 30)}
		g.P = gen.Profile{Modelled: true, MaxDepth: 2}
		st := g.RandomSettings(false)
		// C02's statement excludes unit <= 0 (never generated) and times outside the UnixNano range
		// under the UNIX* formats.
		switch st.TimeFieldFormat {
		case zerolog.TimeFormatUnixMs, zerolog.TimeFormatUnixMicro, zerolog.TimeFormatUnixNano:
			g.V.TimeUnixNano = true
		}
		st.GlobalLevel = zerolog.TraceLevel
		g.S = &st
		var p *gen.Program
		kind := ""
		if idx < nExh {
			p = gen.ClassStringProgram(gen.ClassString(idx), st)
			out.Count("class_string_programs", 1)
		} else {
			kind = kinds[(idx-nExh)%len(kinds)]
			p = g.MetamorphicProgram(kind)
			out.Count("meta_"+kind, 1)
		}
		restore := p.S.Apply()
		if idx%2 == 0 {
			poolHistory(idx)
			out.Count("cases_after_pool_history", 1)
		}
		res := x.Run(p)
		restore()
		h, nontriv := c02Judge(out, f, idx, p, &res, kind)
		out.Case(h, nontriv)
		if idx%(total/6+1) == 0 || (idx >= nExh && idx < nExh+3) {
			s := map[string]interface{}{"index": idx, "program": p.Describe()}
			if len(res.Writes) > 0 && len(res.Writes[0]) > 0 {
				s["event_bytes"] = fmt.Sprintf("%q", clipb(res.Writes[0][0].P))
			}
			out.Sample(s, 8)
		}
	}
	out.Matrix = map[string]map[string]int{}
	for fe, m := range hits {
		if m != nil {
			out.Matrix[gen.FeNames[fe]] = m
		}
	}
	out.Extra["class_string_max_len"] = L
	out.Finish(f)
	return 0
}

func c02Judge(out *evid.Out, f *evid.Flags, idx int, p *gen.Program, res *gen.Result, kind string) (uint64, bool) {
	h := rng.HashStr(p.S.String())
	rep := func(extra map[string]interface{}) map[string]interface{} {
		m := map[string]interface{}{"check": "c02", "seed": f.Seed, "tier": f.Tier, "index": idx, "program": p.Describe()}
		for k, v := range extra {
			m[k] = v
		}
		return m
	}
	if res.Panic != nil {
		out.Violate(sigOf("panic", fmt.Sprint(res.Panic)), fmt.Sprintf("panic %v", res.Panic), rep(nil))
		return h, false
	}
	if len(res.Writes) != 1 || len(res.Writes[0]) != 1 {
		out.Violate("writes", "expected exactly one event", rep(nil))
		return h, false
	}
	w := res.Writes[0][0]
	h = h*0x100000001b3 ^ rng.Hash64(w.P)
	obj, err := jsonv.ParseLine(w.P)
	if err != nil {
		out.Violate(sigOf("invalid", err.Error()), fmt.Sprintf("not one well-formed JSON line: %v: %q", err, clipb(w.P)), rep(map[string]interface{}{"bytes": fmt.Sprintf("%q", clipb(w.P))}))
		return h, false
	}
	// second opinion on validity: encoding/json must also accept it
	var any interface{}
	d := json.NewDecoder(bytes.NewReader(w.P))
	d.UseNumber()
	if e2 := d.Decode(&any); e2 != nil {
		fmt.Printf("HARNESS-INCONSISTENCY jsonv accepts what encoding/json rejects: %v: %q\n", e2, w.P)
		out.Count("harness_inconsistency", 1)
	}
	if err := gen.MatchFields(obj, p.Expect[0].Fields, &p.S); err != nil {
		out.Violate(sigOf("mismatch:"+kind, err.Error()), fmt.Sprintf("logged value does not decode back to what was logged: %v; bytes %q", err, clipb(w.P)),
			rep(map[string]interface{}{"bytes": fmt.Sprintf("%q", clipb(w.P)), "error": err.Error()}))
		return h, true
	}
	if kind != "" {
		occ := gen.MetaOccurrences(obj)
		var first []byte
		var firstK string
		for _, k := range []string{"e", "c", "d", "o", "f", "a", "m", "s", "p", "v", "g", "h", "io", "ad", "ao", "aio", "cd", "co", "cio", "cg", "ca", "cm", "cv"} {
			b, ok := occ[k]
			if !ok {
				continue
			}
			if first == nil {
				first, firstK = b, k
				continue
			}
			if !bytes.Equal(first, b) {
				out.Violate("entrypoints-differ:"+kind, fmt.Sprintf("%s: entry point %q renders %q but entry point %q renders %q", kind, firstK, clipb(first), k, clipb(b)),
					rep(map[string]interface{}{"bytes": fmt.Sprintf("%q", clipb(w.P))}))
				break
			}
		}
		out.Count("occurrences_compared", int64(len(occ)))
	}
	return h, true
}

// ---- float sweeps -------------------------------------------------------------------------------

type bufW struct{ b []byte }

func (w *bufW) Write(p []byte) (int, error) { w.b = append(w.b[:0], p...); return len(p), nil }

// c02floats: float32 bit patterns (a stride in quick, all 2^32 in thorough) through Event.Float32,
// every 64th also through Floats32/Array/Context/Fields; plus random float64 patterns.
func c02floats(args []string) int {
	f := mustFlags(args)
	out := evid.New("C02")
	out.Sub = "floats"
	st := gen.DefaultSettings()
	restore := st.Apply()
	defer restore()
	w := &bufW{}
	l := zerolog.New(w)
	// shard the 2^32 space into contiguous ranges
	var lo, hi, step uint64
	span := uint64(1) << 32
	lo = span / uint64(f.NShards) * uint64(f.Shard)
	hi = span / uint64(f.NShards) * uint64(f.Shard+1)
	if f.Shard == f.NShards-1 {
		hi = span
	}
	step = 1
	if !f.Thorough() {
		step = 1021 // prime stride: ~4.2M patterns
	}
	if f.Scale < 1 {
		step = uint64(float64(step) / f.Scale)
	}
	var n, nspecial, nexp int64
	prefix := []byte(`{"f":`)
	bad := func(sig, desc string, bits uint32) {
		out.Violate(sig, desc, map[string]interface{}{"check": "c02-floats", "float32_bits": fmt.Sprintf("%08x", bits), "bytes": fmt.Sprintf("%q", w.b)})
	}
	for b := lo; b < hi; b += step {
		bits := uint32(b)
		v := math.Float32frombits(bits)
		l.Log().Float32("f", v).Send()
		n++
		if !bytes.HasPrefix(w.b, prefix) || len(w.b) < 8 || string(w.b[len(w.b)-2:]) != "}\n" {
			bad("float32:frame", fmt.Sprintf("unexpected event bytes %q", w.b), bits)
			continue
		}
		tok := w.b[len(prefix) : len(w.b)-2]
		f64 := float64(v)
		if f64 != f64 || math.IsInf(f64, 0) {
			nspecial++
			want := `"NaN"`
			if math.IsInf(f64, 1) {
				want = `"+Inf"`
			} else if math.IsInf(f64, -1) {
				want = `"-Inf"`
			}
			if string(tok) != want {
				bad("float32:special", fmt.Sprintf("float32 bits %08x: want %s got %s", bits, want, tok), bits)
			}
			continue
		}
		back, err := strconv.ParseFloat(string(tok), 32)
		if err != nil || math.Float32bits(float32(back)) != bits {
			bad("float32:roundtrip", fmt.Sprintf("float32 bits %08x rendered %s which parses to %08x (err %v)", bits, tok, math.Float32bits(float32(back)), err), bits)
			continue
		}
		abs := float32(math.Abs(f64))
		wantExp := abs != 0 && (abs < 1e-6 || abs >= 1e21)
		hasExp := bytes.IndexByte(tok, 'e') >= 0
		if hasExp {
			nexp++
		}
		if wantExp != hasExp {
			bad("float32:format", fmt.Sprintf("float32 bits %08x rendered %s: exponent form expected=%v", bits, tok, wantExp), bits)
			continue
		}
		if (b-lo)/step%16 == 0 {
			ref, _ := json.Marshal(v)
			if !bytes.Equal(ref, tok) {
				bad("float32:encoding-json", fmt.Sprintf("float32 bits %08x rendered %s, encoding/json renders %s", bits, tok, ref), bits)
				continue
			}
			out.Count("compared_with_encoding_json", 1)
		}
		if (b-lo)/step%64 == 0 {
			// other entry points must give the same token
			tk := append([]byte(nil), tok...)
			chk := func(name string, got []byte, pre, suf string) {
				if !bytes.HasPrefix(got, []byte(pre)) || !bytes.HasSuffix(got, []byte(suf)) || !bytes.Equal(got[len(pre):len(got)-len(suf)], tk) {
					bad("float32:entrypoint:"+name, fmt.Sprintf("float32 bits %08x: Event.Float32 renders %s but %s gives %q", bits, tk, name, got), bits)
				}
			}
			l.Log().Floats32("f", []float32{v}).Send()
			chk("Floats32", w.b, `{"f":[`, "]}\n")
			l.Log().Array("f", zerolog.Arr().Float32(v)).Send()
			chk("Array.Float32", w.b, `{"f":[`, "]}\n")
			cl := l.With().Float32("f", v).Logger()
			cl.Log().Send()
			chk("Context.Float32", w.b, `{"f":`, "}\n")
			l.Log().Fields(map[string]interface{}{"f": v}).Send()
			chk("Fields(map)", w.b, `{"f":`, "}\n")
			l.Log().Fields([]interface{}{"f", &v}).Send()
			chk("Fields(*float32)", w.b, `{"f":`, "}\n")
			l.Log().Dict("f", zerolog.Dict().Float32("f", v)).Send()
			chk("Dict.Float32", w.b, `{"f":{"f":`, "}}\n")
			out.Count("entrypoint_sets_compared", 1)
		}
	}
	out.Count("float32_patterns", n)
	out.Count("float32_special", nspecial)
	out.Count("float32_exponent_form", nexp)
	// float64 random patterns
	n64 := f.N(1<<19, 1<<26)
	r := rng.New(f.Seed, 0xf64, uint64(f.Shard))
	var n64exp int64
	for i := 0; i < n64; i++ {
		bits := r.U64()
		if i%4 == 0 {
			// concentrate near the switch points
			base := []float64{1e-6, 1e21, 1, 1e15}[i/4%4]
			bits = math.Float64bits(base) + (r.U64() % 4096) - 2048
			if r.Bool() {
				bits |= 1 << 63
			}
		}
		v := math.Float64frombits(bits)
		l.Log().Float64("f", v).Send()
		tok := w.b[len(prefix) : len(w.b)-2]
		if v != v || math.IsInf(v, 0) {
			want := `"NaN"`
			if math.IsInf(v, 1) {
				want = `"+Inf"`
			} else if math.IsInf(v, -1) {
				want = `"-Inf"`
			}
			if string(tok) != want {
				out.Violate("float64:special", fmt.Sprintf("float64 bits %016x: want %s got %s", bits, want, tok), map[string]interface{}{"float64_bits": fmt.Sprintf("%016x", bits)})
			}
			continue
		}
		back, err := strconv.ParseFloat(string(tok), 64)
		if err != nil || math.Float64bits(back) != bits {
			out.Violate("float64:roundtrip", fmt.Sprintf("float64 bits %016x rendered %s which parses to %016x", bits, tok, math.Float64bits(back)), map[string]interface{}{"float64_bits": fmt.Sprintf("%016x", bits)})
			continue
		}
		if bytes.IndexByte(tok, 'e') >= 0 {
			n64exp++
		}
		if i%4 == 0 {
			ref, _ := json.Marshal(v)
			if !bytes.Equal(ref, tok) {
				out.Violate("float64:encoding-json", fmt.Sprintf("float64 bits %016x rendered %s, encoding/json renders %s", bits, tok, ref), map[string]interface{}{"float64_bits": fmt.Sprintf("%016x", bits)})
			}
		}
		if i%32 == 0 {
			// the other entry points must give the same token (also around the format switch points, which every
			// fourth pattern is near)
			tk := append([]byte(nil), tok...)
			chk := func(name string, got []byte, pre, suf string) {
				if !bytes.HasPrefix(got, []byte(pre)) || !bytes.HasSuffix(got, []byte(suf)) || !bytes.Equal(got[len(pre):len(got)-len(suf)], tk) {
					out.Violate("float64:entrypoint:"+name, fmt.Sprintf("float64 bits %016x: Event.Float64 renders %s but %s gives %q", bits, tk, name, got), map[string]interface{}{"float64_bits": fmt.Sprintf("%016x", bits)})
				}
			}
			l.Log().Floats64("f", []float64{v}).Send()
			chk("Floats64", w.b, `{"f":[`, "]}\n")
			l.Log().Array("f", zerolog.Arr().Float64(v)).Send()
			chk("Array.Float64", w.b, `{"f":[`, "]}\n")
			cl := l.With().Float64("f", v).Logger()
			cl.Log().Send()
			chk("Context.Float64", w.b, `{"f":`, "}\n")
			cl2 := l.With().Floats64("f", []float64{v}).Logger()
			cl2.Log().Send()
			chk("Context.Floats64", w.b, `{"f":[`, "]}\n")
			l.Log().Fields(map[string]interface{}{"f": v}).Send()
			chk("Fields(map)", w.b, `{"f":`, "}\n")
			l.Log().Fields([]interface{}{"f", &v}).Send()
			chk("Fields(*float64)", w.b, `{"f":`, "}\n")
			l.Log().Fields(map[string]interface{}{"f": []float64{v}}).Send()
			chk("Fields([]float64)", w.b, `{"f":[`, "]}\n")
			l.Log().Dict("f", zerolog.Dict().Float64("f", v)).Send()
			chk("Dict.Float64", w.b, `{"f":{"f":`, "}}\n")
			l.Log().Interface("f", v).Send()
			chk("Interface", w.b, `{"f":`, "}\n")
			out.Count("float64_entrypoint_sets_compared", 1)
		}
	}
	out.Count("float64_patterns", int64(n64))
	out.Count("float64_exponent_form", n64exp)
	// evidence: each pattern is a distinct case; count them without hashing 2^32 values
	out.Evaluations = n + int64(n64)
	out.Extra["sum_float_patterns_distinct"] = n + int64(n64)
	out.Extra["float32_stride"] = step
	if f.Shard == 0 {
		l.Log().Float32("f", math.Float32frombits(0x358637bd)).Send()
		out.Sample(map[string]interface{}{"float32_bits": "358637bd", "event_bytes": string(w.b)}, 10)
		l.Log().Float64("f", 1e21).Send()
		out.Sample(map[string]interface{}{"float64": "1e21", "event_bytes": string(w.b)}, 10)
	}
	out.Exhaustive = f.Thorough()
	out.Finish(f)
	return 0
}
