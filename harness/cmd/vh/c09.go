package main

import (
	"fmt"

	"github.com/rs/zerolog/diode/verifh/cborv"
	"github.com/rs/zerolog/diode/verifh/evid"
	"github.com/rs/zerolog/diode/verifh/gen"
	"github.com/rs/zerolog/diode/verifh/rng"
)

func init() { commands["c09"] = c09 }

// binCase: the shared C08/C09 program list (modelled programs; domain flags differ).
func binCase(f *evid.Flags, idx int, c08 bool, hits *[9]map[string]int) *gen.Program {
	r := rng.New(f.Seed, 0xc089, uint64(idx))
	g := &gen.G{R: r, Hits: hits}
	g.V = gen.V{R: r, Big: r.Chance(1, 25)}
	g.P = gen.Profile{Modelled: true, MaxDepth: 3, CustomIface: true}
	if f.Thorough() {
		g.P.MaxDepth = 5
	}
	st := g.RandomSettings(idx%4 == 0)
	if c08 {
		// the domain of C08: same float only at precision -1, canonical network values, times in 1970-2100
		st.FloatingPointPrecision = -1
		g.V.CanonicalNet = true
		g.V.Time1970to2100 = true
	}
	g.S = &st
	return g.GenProgram(5, 3, 8)
}

func c09(args []string) int {
	f := mustFlags(args)
	out := evid.New("C09")
	if !isBinaryBuild() {
		fmt.Println("c09 needs the binary_log build")
		return 2
	}
	total := f.N(120000, 8000000)
	var hits [9]map[string]int
	x := &gen.Exec{}
	for idx := 0; idx < total; idx++ {
		if !f.Mine(idx) {
			continue
		}
		p := binCase(f, idx, false, &hits)
		restore := p.S.Apply()
		res := x.Run(p)
		restore()
		h := rng.HashStr(p.S.String())
		rep := func(ei int, extra map[string]interface{}) map[string]interface{} {
			m := map[string]interface{}{"check": "c09", "seed": f.Seed, "tier": f.Tier, "index": idx, "event": ei, "program": p.Describe()}
			for k, v := range extra {
				m[k] = v
			}
			return m
		}
		if res.Panic != nil {
			out.Violate(sigOf("panic", fmt.Sprint(res.Panic)), fmt.Sprintf("panic %v", res.Panic), rep(-1, nil))
			continue
		}
		nw := 0
		for ei := range p.Events {
			ex := &p.Expect[ei]
			ws := res.Writes[ei]
			if ex.Written != (len(ws) == 1) || len(ws) > 1 {
				out.Violate("writes", fmt.Sprintf("event %d: expected written=%v, got %d writes", ei, ex.Written, len(ws)), rep(ei, nil))
				continue
			}
			if !ex.Written {
				continue
			}
			nw++
			w := ws[0]
			h = h*0x100000001b3 ^ rng.Hash64(w.P)
			n, err := cborv.Parse(w.P)
			if err != nil {
				out.Violate(sigOf("ill-formed", err.Error()), fmt.Sprintf("event %d is not one well-formed CBOR data item: %v: %x", ei, err, clipb(w.P)), rep(ei, map[string]interface{}{"bytes_hex": fmt.Sprintf("%x", clipb(w.P))}))
				continue
			}
			if err := gen.MatchCBORFields(n, ex.Fields, &p.S); err != nil {
				out.Violate(sigOf("mismatch", err.Error()), fmt.Sprintf("event %d differs from the documented representation: %v; bytes %x", ei, err, clipb(w.P)),
					rep(ei, map[string]interface{}{"bytes_hex": fmt.Sprintf("%x", clipb(w.P)), "error": err.Error()}))
			}
			c09lengths(out, n)
		}
		out.Count("events_written", int64(nw))
		out.Case(h, nw > 0 && p.Containers > 0)
		if idx%(total/5+1) == 0 {
			s := map[string]interface{}{"index": idx, "program": p.Describe()}
			if len(res.Writes) > 0 && len(res.Writes[0]) > 0 {
				s["first_event_hex"] = fmt.Sprintf("%x", clipb(res.Writes[0][0].P))
			}
			out.Sample(s, 5)
		}
	}
	out.Matrix = map[string]map[string]int{}
	for fe, m := range hits {
		if m != nil {
			out.Matrix[gen.FeNames[fe]] = m
		}
	}
	if f.Shard == 0 {
		ctxReuse(out, "C09")
	}
	out.Finish(f)
	return 0
}

// c09lengths records which definite-length / integer-width boundaries were observed.
func c09lengths(out *evid.Out, n *cborv.Node) {
	var walk func(n *cborv.Node)
	walk = func(n *cborv.Node) {
		switch n.Major {
		case 0, 1:
			for _, b := range []uint64{23, 24, 255, 256, 65535, 65536, 1<<32 - 1, 1 << 32} {
				if n.Arg == b {
					out.Count(fmt.Sprintf("int_arg_%d", b), 1)
				}
			}
			if n.Arg >= 1<<63 {
				out.Count("int_arg_ge_2^63", 1)
			}
		case 2, 3:
			if !n.Indef {
				for _, b := range []uint64{23, 24, 255, 256, 65535, 65536} {
					if n.Arg == b {
						out.Count(fmt.Sprintf("strlen_%d", b), 1)
					}
				}
			}
		case 4:
			if !n.Indef {
				for _, b := range []uint64{23, 24, 255, 256, 65535, 65536} {
					if n.Arg == b {
						out.Count(fmt.Sprintf("arrlen_%d", b), 1)
					}
				}
			}
		}
		for _, c := range n.Items {
			walk(c)
		}
		if n.Child != nil {
			walk(n.Child)
		}
	}
	walk(n)
}
