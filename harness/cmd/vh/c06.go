package main

import (
	"context"
	"bytes"
	"errors"
	"fmt"
	"hash/crc32"
	"io"
	"runtime"
	"sync"
	"sync/atomic"
	"time"

	"github.com/rs/zerolog"
	"github.com/rs/zerolog/diode"
	"github.com/rs/zerolog/diode/verifh/evid"
	"github.com/rs/zerolog/diode/verifh/gen"
	"github.com/rs/zerolog/diode/verifh/rng"
	zlog "github.com/rs/zerolog/log"
)

func init() { commands["c06"] = c06 }

const idKey = "verif#id"

// cw6 is the recording destination: copies and checksums its argument on entry and again before
// returning (after an injected delay), counts overlapping calls, looks the event up by id.
type cw6 struct {
	name     string
	mu       sync.Mutex
	got      map[string]int
	expect   map[string][]byte
	inflight int32
	maxInfl  int32
	calls    int64
	seq      int64
	waiters  chan struct{}
	delayMod int
	viol     func(sig, desc string)
	console  bool
}

func (w *cw6) Write(p []byte) (int, error) { return w.WriteLevel(-99, p) }

func extractID(p []byte, console bool) (string, bool) {
	pat := []byte(`"` + idKey + `":"`)
	end := byte('"')
	if console {
		pat = []byte(idKey + "=")
	}
	i := bytes.Index(p, pat)
	if i < 0 {
		return "", false
	}
	rest := p[i+len(pat):]
	j := 0
	for j < len(rest) && rest[j] != end && rest[j] != ' ' && rest[j] != '\n' {
		j++
	}
	return string(rest[:j]), true
}

func (w *cw6) WriteLevel(l zerolog.Level, p []byte) (int, error) {
	n := atomic.AddInt32(&w.inflight, 1)
	for {
		m := atomic.LoadInt32(&w.maxInfl)
		if n <= m || atomic.CompareAndSwapInt32(&w.maxInfl, m, n) {
			break
		}
	}
	sum := crc32.ChecksumIEEE(p)
	cp := append([]byte(nil), p...)
	seq := atomic.AddInt64(&w.seq, 1)
	// injected delay: where a slow destination would hold zerolog up
	switch int(seq) % w.delayMod {
	case 0:
		for i := 0; i < 1+int(seq%5); i++ {
			runtime.Gosched()
		}
	case 1:
		time.Sleep(time.Duration(5+seq%45) * time.Microsecond)
	case 2:
		// block until another call arrives (or 2 ms pass: the timeout only ends the delay)
		select {
		case <-w.waiters:
		case <-time.After(2 * time.Millisecond):
		}
	case 3:
		select {
		case w.waiters <- struct{}{}:
		default:
		}
	}
	if crc32.ChecksumIEEE(p) != sum || !bytes.Equal(p, cp) {
		w.viol("modified-during-write", fmt.Sprintf("[%s] the slice handed to the writer changed before Write returned: entry %q exit %q", w.name, clipb(cp), clipb(p)))
	}
	id, ok := extractID(cp, w.console)
	w.mu.Lock()
	w.calls++
	if !ok {
		w.mu.Unlock()
		w.viol("torn-no-id", fmt.Sprintf("[%s] write without a recognisable event id: %q", w.name, clipb(cp)))
	} else {
		w.got[id]++
		exp, known := w.expect[id]
		w.mu.Unlock()
		if !known {
			w.viol("unknown-id", fmt.Sprintf("[%s] write carries id %q that no chain produces: %q", w.name, id, clipb(cp)))
		} else if !bytes.Equal(exp, cp) {
			w.viol("bytes-differ", fmt.Sprintf("[%s] event %s differs from what the same chain produces alone:\n concurrent %q\n alone      %q", w.name, id, clipb(cp), clipb(exp)))
		}
	}
	atomic.AddInt32(&w.inflight, -1)
	return len(p), nil
}

type plainOnly6 struct{ w io.Writer }

func (p plainOnly6) Write(b []byte) (int, error) { return p.w.Write(b) }

type admitAll6 struct{}

func (admitAll6) Sample(zerolog.Level) bool { return true }

type obj6 struct{ w int }

func (o obj6) MarshalZerologObject(e *zerolog.Event) { e.Int("w", o.w) }

type addHook6 struct{ k string }

func (h addHook6) Run(e *zerolog.Event, l zerolog.Level, m string) { e.Str(h.k, "hv") }

// failOut6: a destination that refuses every third line, takes 4 bytes of every other third and accepts the rest.
type failOut6 struct{ n int }

func (w *failOut6) Write(p []byte) (int, error) {
	w.n++
	switch w.n % 3 {
	case 0:
		return 0, errors.New("failOut6: refused")
	case 1:
		if len(p) > 4 {
			return 4, io.ErrShortWrite
		}
	}
	return len(p), nil
}

type chain6 struct {
	id        string
	ev        gen.EventSpec
	lvl       zerolog.Level
	nestedErr bool // the event also records an error inside a nested dictionary and inside an array of objects
	extras    bool // a discarded event may precede it (not on workers that may log through the counting shared sampler)
}

type errObj6 struct{}

func (errObj6) MarshalZerologObject(e *zerolog.Event) { e.Err(err6).Str("after", "err") }

var err6 = errors.New("nested-e6")

func newW6(name string, console bool, delayMod int, viol func(string, string)) *cw6 {
	return &cw6{name: name, got: map[string]int{}, expect: map[string][]byte{}, waiters: make(chan struct{}, 64), delayMod: delayMod, viol: viol, console: console}
}

// c06run executes one configuration: phase 1 alone, phase 2 concurrently.
func c06run(out *evid.Out, f *evid.Flags, run int) {
	r := rng.New(f.Seed, 0xc06, uint64(run))
	// destination kind cycles fastest; the other parameters are decoded from the remaining digits of the run
	// number so that no two of them are tied together
	const nDest = 11
	destKind := run % nDest // 0 plain, 1 SyncWriter(LevelWriter), 2 Multi of two, 3 ConsoleWriter literal, 4 log.Logger global, 5 NewConsoleWriter(...), 6 SyncWriter(plain io.Writer), 7 ConsoleWriter{Out: SyncWriter(...)}: SyncWriter reached through its plain Write,
	// 8 plain recorder, but every pair of events of a worker is a "request" logged through its own short-lived
	// TriggerLevelWriter (hold up to warn, release at error) created with Output(): the writers' buffer pool is shared
	// 9 SyncWriter(LevelWriter) where every other worker reaches the destination through SyncWriter(SyncWriter(dest)) - a component
	// that defensively wraps whatever writer it is handed: the destination is still entered by one call at a time
	q := run / nDest
	G := []int{4, 32}[q%2]
	K := 40 + r.Intn(60)
	procs := []int{16, 2, 16, 1}[(q/2)%4]
	if f.Thorough() {
		G = []int{2, 4, 16, 64, 256}[q%5]
		procs = []int{16, 2, 16, 1}[(q/5)%4]
		K = 20 + r.Intn(200)
		if G == 256 {
			K = 10 + r.Intn(30)
		}
	}
	old := runtime.GOMAXPROCS(procs)
	defer runtime.GOMAXPROCS(old)
	withSampler := r.Chance(1, 3) && destKind != 3 && destKind != 5 && destKind != 7 && destKind != 8
	if destKind == 8 && K%2 == 1 {
		K++
	}
	samplerKind := r.Intn(2) // 0: BasicSampler{3}; 1: LevelSampler -> BurstSampler that admits everything (atomics under contention)
	st := gen.DefaultSettings()
	st.GlobalLevel = zerolog.TraceLevel
	// an error-stack marshaler is installed: loggers built With().Stack() (worker kind 2) add a stack member next to
	// their errors - and only they do, also inside nested dictionaries and objects of other workers' events
	st.StackMarshal = 2
	restore := st.Apply()
	defer restore()
	oldEH := zerolog.ErrorHandler
	zerolog.ErrorHandler = func(error) {} // write errors of the deliberately failing destination are not printed
	defer func() { zerolog.ErrorHandler = oldEH }()
	var nviol int32
	viol := func(sig, desc string) {
		if atomic.AddInt32(&nviol, 1) <= 20 {
			out.Violate(sig, fmt.Sprintf("run %d (G=%d K=%d dest=%d GOMAXPROCS=%d): %s", run, G, K, destKind, procs, desc),
				map[string]interface{}{"check": "c06", "seed": f.Seed, "tier": f.Tier, "run": run})
		}
	}
	// chains
	var nPanicEntries, nPoison, nCtx int64
	defer func() {
		out.Count("events_through_a_logger_fetched_from_a_shared_context", nCtx)
		out.Count("panic_entry_events", nPanicEntries)
		out.Count("events_through_a_failing_console_destination_nearby", nPoison)
	}()
	x := &gen.Exec{}
	chains := make([][]chain6, G)
	for w := 0; w < G; w++ {
		for i := 0; i < K; i++ {
			cr := rng.New(f.Seed, 0xc06c, uint64(run), uint64(w), uint64(i))
			g := &gen.G{R: cr, S: &st}
			g.V = gen.V{R: cr, Big: cr.Chance(1, 25)}
			g.P = gen.Profile{Modelled: true, MaxDepth: 3}
			var ev gen.EventSpec
			ev.Entry = "WithLevel"
			ev.Level = zerolog.Level(1 + cr.Intn(3)) // info..error: unaffected by the level toggler
			switch cr.Intn(8) {
			case 0:
				ev.Entry, ev.Level = "Info", zerolog.InfoLevel
			case 1:
				ev.Entry, ev.Level = "Warn", zerolog.WarnLevel
			case 2:
				ev.Entry, ev.Level = "Error", zerolog.ErrorLevel
			case 3:
				ev.Entry, ev.Level, ev.Err = "Err", zerolog.ErrorLevel, errors.New("e6")
			case 4:
				// Logger.Panic(): written like any other event, then the call panics with the message (recovered in emit);
				// the event carries a completion callback while other goroutines take events from the same pool
				if cr.Chance(1, 2) {
					ev.Entry, ev.Level = "Panic", zerolog.PanicLevel
				}
			}
			stack := false
			for j, n := 0, cr.Intn(6); j < n; j++ {
				ev.Ops = append(ev.Ops, g.KeyedOp(gen.FeEvent, 0, &stack))
			}
			ev.Fin = []string{"Msg", "Msgf", "Send", "MsgFunc"}[cr.Intn(4)]
			ev.Msg = g.V.String()
			if destKind == 8 && i%2 == 1 {
				// the second event of a request is at error level: it releases what the first one may have left held
				ev.Entry, ev.Level, ev.Err = "WithLevel", zerolog.ErrorLevel, nil
			}
			chains[w] = append(chains[w], chain6{id: fmt.Sprintf("w%d-%d", w, i), ev: ev, lvl: ev.Level, nestedErr: cr.Chance(1, 3), extras: w%4 != 0})
		}
	}
	var closers []io.Closer
	mkDest := func(delay int) (root io.Writer, recs []*cw6) {
		switch destKind {
		case 10:
			// ConsoleWriter in front of a diode writer (ring larger than the run): the destination behind the diode is slow
			// or blocked while the ConsoleWriter recycles its buffer for the next event
			a := newW6("console-over-diode", true, delay, viol)
			// the ring holds every event of the run (G*K, plus slack): nothing may be dropped
			dw := diode.NewWriter(a, 2*G*K+1024, 0, func(missed int) { viol("diode-dropped", fmt.Sprintf("the diode reported %d dropped messages although its ring (%d) is larger than the run (%d events)", missed, 2*G*K+1024, G*K)) })
			closers = append(closers, dw)
			return zerolog.ConsoleWriter{Out: dw, NoColor: true, TimeFormat: time.RFC3339, TimeLocation: time.UTC}, []*cw6{a}
		case 1, 9:
			a := newW6("sync", false, delay, viol)
			return zerolog.SyncWriter(a), []*cw6{a}
		case 2:
			a, b := newW6("multi-a", false, delay, viol), newW6("multi-b", false, delay+1, viol)
			return zerolog.MultiLevelWriter(a, b), []*cw6{a, b}
		case 3:
			a := newW6("console-out", true, delay, viol)
			return zerolog.ConsoleWriter{Out: a, NoColor: true, TimeFormat: time.RFC3339, TimeLocation: time.UTC}, []*cw6{a}
		case 6:
			a := newW6("sync-plain", false, delay, viol)
			return zerolog.SyncWriter(plainOnly6{a}), []*cw6{a}
		case 7:
			a := newW6("console-over-sync", true, delay, viol)
			return zerolog.ConsoleWriter{Out: zerolog.SyncWriter(a), NoColor: true, TimeFormat: time.RFC3339, TimeLocation: time.UTC}, []*cw6{a}
		case 5:
			a := newW6("newconsole-out", true, delay, viol)
			return zerolog.NewConsoleWriter(func(w *zerolog.ConsoleWriter) {
				w.Out, w.NoColor, w.TimeFormat, w.TimeLocation = a, true, time.RFC3339, time.UTC
			}), []*cw6{a}
		}
		a := newW6("plain", false, delay, viol)
		return a, []*cw6{a}
	}
	// the logger of worker w, derived the same way in both phases
	// threeHooks: ONE parent shared by all workers, whose hooks were added in several calls (so that its hook list
	// has spare capacity); every fifth worker hangs its own hook below it: siblings must not see each other's
	threeHooks := func(base zerolog.Logger) zerolog.Logger {
		return base.Hook(addHook6{"p1"}).Hook(addHook6{"p2"}).Hook(addHook6{"p3"})
	}
	var shared zerolog.Logger
	mkLogger := func(base zerolog.Logger, w int) zerolog.Logger {
		if w%4 != 0 && w%5 == 4 {
			return shared.Hook(addHook6{fmt.Sprintf("own%d", w)})
		}
		switch w % 4 {
		case 0:
			return base
		case 1:
			// containers in the context: derivation itself takes events / arrays from the pools
			return base.With().Int("worker", w).Str("pad", "xxxxxxxxxxxxxxxxxxxxxxxxxxxxxxxxxxxxxxxx").
				Dict("cd", zerolog.Dict().Int("w", w).Str("s", "t")).Array("ca", zerolog.Arr().Int(w).Str("u")).
				Fields(map[string]interface{}{"cf": w}).Object("co", obj6{w}).Logger()
		case 2:
			return base.Hook(addHook6{"hk"}).With().Timestamp().Stack().Logger()
		}
		return base.With().Int("worker", w).Logger().Hook(addHook6{"h2"}).Level(zerolog.InfoLevel)
	}
	emit := func(l *zerolog.Logger, c *chain6) {
		if c.ev.Entry == "Panic" {
			atomic.AddInt64(&nPanicEntries, 1)
			defer func() {
				r := recover()
				if _, ok := r.(string); !ok {
					viol("panic-entry", fmt.Sprintf("chain %s: Logger.Panic()...%s ended with recover() = %v (%T), specified: panics with the message string", c.id, c.ev.Fin, r, r))
				}
			}()
		}
		if c.extras && c.nestedErr == (len(c.id)%2 == 0) {
			// an event that is discarded (outside any hook) and finalized all the same: it never reaches the destination,
			// and it leaves nothing behind for the events that follow
			if len(c.id)%3 == 0 {
				d := l.Info().Str(idKey, "discarded-"+c.id)
				d.Discard()
				d.Str("more", "x").Msg("never written")
			} else {
				l.Warn().Str(idKey, "discarded-"+c.id).Func(func(e *zerolog.Event) { e.Discard() }).Msg("never written")
			}
		}
		e := gen.StartEvent(l, &c.ev).Str(idKey, c.id)
		for _, op := range c.ev.Ops {
			e = x.ApplyEvent(e, op)
		}
		if c.nestedErr {
			e = e.Dict("nd", zerolog.Dict().Err(err6).Str("z", "y")).Array("na", zerolog.Arr().Object(errObj6{}).Err(err6)).Object("no", errObj6{})
		}
		gen.Finish(e, &c.ev)
	}
	// emitAll logs worker w's chains through l; for destination kind 8 two by two through a request-scoped
	// TriggerLevelWriter in front of the logger's destination dst
	emitAll := func(l *zerolog.Logger, dst io.Writer, w int, each func(i int, lg *zerolog.Logger, c *chain6)) {
		if destKind == 9 && w%2 == 1 {
			lr := l.Output(zerolog.SyncWriter(dst)) // dst is itself the result of SyncWriter
			l = &lr
		}
		if destKind != 8 {
			for i := range chains[w] {
				each(i, l, &chains[w][i])
			}
			return
		}
		for i := 0; i+1 < len(chains[w]); i += 2 {
			tw := &zerolog.TriggerLevelWriter{Writer: dst, ConditionalLevel: zerolog.WarnLevel, TriggerLevel: zerolog.ErrorLevel}
			lr := l.Output(tw)
			each(i, &lr, &chains[w][i])
			each(i+1, &lr, &chains[w][i+1])
			tw.Close()
		}
	}
	// ---- phase 1: every chain alone, through a capturing destination of the same shape
	_, recs1 := mkDest(1 << 30)
	expect := make([]map[string][]byte, len(recs1))
	{
		capW := make([]*capture6, len(recs1))
		var root io.Writer
		switch destKind {
		case 1, 6, 9:
			capW[0] = &capture6{m: map[string][]byte{}}
			root = zerolog.SyncWriter(capW[0])
		case 2:
			capW[0], capW[1] = &capture6{m: map[string][]byte{}}, &capture6{m: map[string][]byte{}}
			root = zerolog.MultiLevelWriter(capW[0], capW[1])
		case 3, 5, 7, 10:
			capW[0] = &capture6{m: map[string][]byte{}, console: true}
			root = zerolog.ConsoleWriter{Out: capW[0], NoColor: true, TimeFormat: time.RFC3339, TimeLocation: time.UTC}
		default:
			capW[0] = &capture6{m: map[string][]byte{}}
			root = capW[0]
		}
		baseC := zerolog.New(root).With().Str("svc", "c06").Logger()
		shared = threeHooks(baseC)
		for w := 0; w < G; w++ {
			l := mkLogger(baseC, w)
			emitAll(&l, root, w, func(i int, lg *zerolog.Logger, c *chain6) { emit(lg, c) })
		}
		for k := range capW {
			expect[k] = capW[k].m
			if len(capW[k].m) != G*K {
				viol("phase1", fmt.Sprintf("sequential phase captured %d events, expected %d", len(capW[k].m), G*K))
			}
		}
	}
	// ---- phase 2: concurrently
	root2, recs2 := mkDest(5 + r.Intn(4))
	for k, rc := range recs2 {
		rc.expect = expect[k]
	}
	base2 := zerolog.New(root2).With().Str("svc", "c06").Logger()
	shared = threeHooks(base2)
	if destKind == 4 {
		zlog.Logger = base2
	}
	var sampler zerolog.Sampler = &zerolog.BasicSampler{N: 3}
	if samplerKind == 1 {
		bs := &zerolog.BurstSampler{Burst: 1 << 30, Period: time.Hour}
		sampler = zerolog.LevelSampler{InfoSampler: bs, WarnSampler: bs, ErrorSampler: &zerolog.BurstSampler{Burst: 0, Period: time.Hour, NextSampler: bs}}
	}
	sampled := base2.Sample(sampler)
	var sampledIssued int64
	stop := make(chan struct{})
	var twg sync.WaitGroup
	twg.Add(1)
	go func() { // toggler: global level between trace and debug (workers log at info+), sampling switch
		defer twg.Done()
		for i := 0; ; i++ {
			select {
			case <-stop:
				zerolog.SetGlobalLevel(zerolog.TraceLevel)
				zerolog.DisableSampling(false)
				return
			default:
			}
			zerolog.SetGlobalLevel(zerolog.Level(i%2 - 1))
			if !withSampler {
				// read concurrently by every worker that logs through a logger with a sampler (below)
				zerolog.DisableSampling(i%3 == 0)
			}
			_ = zerolog.GlobalLevel()
			runtime.Gosched()
		}
	}()
	if destKind == 3 || destKind == 5 || destKind == 7 || destKind == 10 {
		// next to the console destinations under test, another goroutine logs through a ConsoleWriter of its own whose
		// destination refuses every line or takes only a few bytes of it: nothing of that may show anywhere else
		twg.Add(1)
		go func() {
			defer twg.Done()
			bl := zerolog.New(zerolog.ConsoleWriter{Out: &failOut6{}, NoColor: true, TimeFormat: time.RFC3339, TimeLocation: time.UTC})
			for i := 0; ; i++ {
				select {
				case <-stop:
					return
				default:
				}
				bl.Error().Str("secret", "POISON").Int("i", i).Msg("cannot be delivered")
				atomic.AddInt64(&nPoison, 1)
				runtime.Gosched()
			}
		}()
	}
	// a context that carries the base logger: some workers fetch their logger from it for every event, while another
	// goroutine keeps attaching disabled loggers to contexts derived from the same one (muting a sub-tree of its own)
	sharedCtx := base2.WithContext(context.Background())
	twg.Add(1)
	go func() {
		defer twg.Done()
		quiet := zerolog.New(io.Discard).Level(zerolog.Disabled)
		for i := 0; ; i++ {
			select {
			case <-stop:
				return
			default:
			}
			if i%2 == 0 {
				_ = zerolog.Nop().WithContext(sharedCtx)
			} else {
				_ = quiet.WithContext(sharedCtx)
			}
			runtime.Gosched()
		}
	}()
	var wg sync.WaitGroup
	start := make(chan struct{})
	for w := 0; w < G; w++ {
		wg.Add(1)
		go func(w int) {
			defer wg.Done()
			<-start
			l := mkLogger(base2, w) // derivation happens concurrently with other workers' logging
			if !withSampler && w%2 == 1 {
				// a sampler that admits everything: the events are the same, but every one of them reads the
				// global sampling switch the toggler is flipping
				l = l.Sample(admitAll6{})
			}
			useSampled := withSampler && w%4 == 0
			useCtx := !withSampler && w%4 == 0 && w%5 != 4 && destKind != 4 && destKind != 8 && destKind != 9
			emitAll(&l, root2, w, func(i int, lr *zerolog.Logger, c *chain6) {
				switch {
				case useCtx:
					atomic.AddInt64(&nCtx, 1)
					emit(zerolog.Ctx(sharedCtx), c) // the base logger, fetched from the shared context for every event
				case useSampled:
					atomic.AddInt64(&sampledIssued, 1)
					emit(&sampled, c)
				case destKind == 4 && w%4 == 0:
					lg := zlog.Logger
					emit(&lg, c)
				default:
					emit(lr, c)
				}
				if i%7 == 3 {
					// derive (and drop) further children from the shared ancestors while others log
					_ = base2.With().Int("tmp", i).Logger()
				}
			})
		}(w)
	}
	close(start)
	wg.Wait()
	close(stop)
	twg.Wait()
	for _, c := range closers {
		c.Close() // drains the diode
	}
	// ---- accounting
	total := 0
	for k, rc := range recs2 {
		admitted := 0
		for w := 0; w < G; w++ {
			for i := range chains[w] {
				id := chains[w][i].id
				n := rc.got[id]
				total += n
				if withSampler && w%4 == 0 {
					admitted += n
					if n > 1 {
						viol("duplicated", fmt.Sprintf("[%s] sampled event %s delivered %d times", rc.name, id, n))
					}
					continue
				}
				if n != 1 {
					sig := "lost"
					if n > 1 {
						sig = "duplicated"
					}
					viol(sig, fmt.Sprintf("[%s] event %s delivered %d times (exactly one Write per emitted event expected)", rc.name, id, n))
				}
			}
		}
		if withSampler {
			want := (int(sampledIssued) + 2) / 3
			if samplerKind == 1 {
				want = int(sampledIssued)
			}
			if admitted != want {
				viol("sampler-share", fmt.Sprintf("[%s] shared sampler (kind %d): %d of %d events delivered, expected %d", rc.name, samplerKind, admitted, sampledIssued, want))
			}
		}
		if (destKind == 1 || destKind == 6 || destKind == 7 || destKind == 9) && rc.maxInfl > 1 {
			viol("syncwriter-overlap", fmt.Sprintf("a writer wrapped in SyncWriter saw %d overlapping calls", rc.maxInfl))
		}
		if rc.maxInfl > 1 {
			out.Count("runs_with_overlapping_writer_calls", 1)
		}
		_ = k
	}
	out.Count("events_delivered_concurrently", int64(total))
	out.Count(fmt.Sprintf("runs_dest_%d", destKind), 1)
	out.Count(fmt.Sprintf("runs_G_%d", G), 1)
	out.Case(rng.HashStr(fmt.Sprint(run, G, K, destKind, procs, f.Seed)), G > 1)
	if run < 2 {
		c := chains[0][0]
		out.Sample(map[string]interface{}{"run": run, "G": G, "K": K, "dest": destKind, "chain": "logger." + c.ev.Entry + fmt.Sprintf("(%d).Str(%q,%q)", c.lvl, idKey, c.id), "alone_bytes": fmt.Sprintf("%q", clipb(expect[0][c.id]))}, 3)
	}
}

type capture6 struct {
	mu      sync.Mutex
	m       map[string][]byte
	console bool
}

func (c *capture6) Write(p []byte) (int, error) {
	id, ok := extractID(p, c.console)
	if ok {
		c.mu.Lock()
		c.m[id] = append([]byte(nil), p...)
		c.mu.Unlock()
	}
	return len(p), nil
}

func c06(args []string) int {
	f := mustFlags(args)
	out := evid.New("C06")
	runs := f.N(64, 800)
	oldL := zlog.Logger
	defer func() { zlog.Logger = oldL }()
	for run := 0; run < runs; run++ {
		if !f.Mine(run) {
			continue
		}
		c06run(out, f, run)
	}
	out.Finish(f)
	return 0
}
