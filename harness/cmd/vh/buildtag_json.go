//go:build !binary_log

package main

func isBinaryBuild() bool { return false }
