package main

import (
	"bufio"
	"bytes"
	"errors"
	"fmt"
	"io"
	"net"
	"net/http"
	"regexp"
	"strings"
	"sync"
	"time"

	"github.com/rs/zerolog"
	"github.com/rs/zerolog/diode/verifh/evid"
	"github.com/rs/zerolog/diode/verifh/jsonv"
	"github.com/rs/zerolog/diode/verifh/rng"
	"github.com/rs/zerolog/hlog"
)

func init() { commands["c18"] = c18 }

// response script ops
const (
	rWHa = iota
	rWHb
	rW
	rWshort
	rWerr
	rRF
	rFlush
	rRFerr
	nROps
)

var rOpNames = [...]string{"WriteHeader(201)", "WriteHeader(404)", "Write(10)", "Write(short)", "Write(err)", "ReadFrom(7)", "Flush", "ReadFrom(3 bytes then error)"}

// fake ResponseWriters of three capability sets; they record what was actually sent.
type fakeRW struct {
	hdr      http.Header
	status   int // first status sent (200 if the body came first)
	accepted int
	calls    []string
}

func (f *fakeRW) Header() http.Header { return f.hdr }
func (f *fakeRW) WriteHeader(c int) {
	f.calls = append(f.calls, fmt.Sprintf("WriteHeader(%d)", c))
	if f.status == 0 {
		f.status = c
	}
}
func (f *fakeRW) Write(p []byte) (int, error) {
	if f.status == 0 {
		f.status = 200
	}
	switch {
	case bytes.HasPrefix(p, []byte("SHORT")):
		n := len(p) / 2
		f.accepted += n
		f.calls = append(f.calls, fmt.Sprintf("Write(%d)->%d,short", len(p), n))
		return n, io.ErrShortWrite
	case bytes.HasPrefix(p, []byte("ERR")):
		f.calls = append(f.calls, fmt.Sprintf("Write(%d)->0,err", len(p)))
		return 0, errors.New("conn reset")
	}
	f.accepted += len(p)
	f.calls = append(f.calls, fmt.Sprintf("Write(%d)", len(p)))
	return len(p), nil
}

type fakeFlushRW struct{ *fakeRW }

func (f fakeFlushRW) Flush() { f.calls = append(f.calls, "Flush") }

type fakeFullRW struct{ *fakeRW }

func (f fakeFullRW) Flush()                   { f.calls = append(f.calls, "Flush") }
func (f fakeFullRW) CloseNotify() <-chan bool { return make(chan bool) }
func (f fakeFullRW) Hijack() (net.Conn, *bufio.ReadWriter, error) {
	return nil, nil, errors.New("no hijack")
}
func (f fakeFullRW) ReadFrom(r io.Reader) (int64, error) {
	if f.status == 0 {
		f.status = 200
	}
	b, err := io.ReadAll(r)
	f.accepted += len(b)
	f.calls = append(f.calls, fmt.Sprintf("ReadFrom(%d)", len(b)))
	return int64(len(b)), err
}

type failingReader struct{}

func (failingReader) Read([]byte) (int, error) { return 0, errors.New("source failed") }

type reqSpec struct {
	id     int
	caps   int // 0 basic, 1 +Flusher, 2 full
	script []int
	k      int // events logged by the final handler
}

type accessRec struct {
	status, size int
	reqID        int
}

// syncRec is the shared destination.
type syncRec struct {
	mu sync.Mutex
	ev [][]byte
}

func (s *syncRec) Write(p []byte) (int, error) {
	s.mu.Lock()
	s.ev = append(s.ev, append([]byte(nil), p...))
	s.mu.Unlock()
	return len(p), nil
}

type fieldH struct {
	name string
	key  string
	mk   func() func(http.Handler) http.Handler
	want func(id int) string // expected value for request id ("" = field absent)
	post bool                // field added after next returns
}

func reqVals(id int) (method, url, remote, ua, ref, custom, host string) {
	return fmt.Sprintf("MR%dX", id), fmt.Sprintf("/path/r%dx?q=r%dx", id, id), fmt.Sprintf("10.%d.%d.%d:%d", id>>16&255, id>>8&255, id&255, 1024+id%50000),
		fmt.Sprintf("ua-r%dx", id), fmt.Sprintf("http://ref/r%dx", id), fmt.Sprintf("c-r%dx", id), fmt.Sprintf("host-r%dx.example:80", id)
}

var c18handlers = []fieldH{
	{"URLHandler", "url", func() func(http.Handler) http.Handler { return hlog.URLHandler("url") }, func(id int) string { _, u, _, _, _, _, _ := reqVals(id); return u }, false},
	{"MethodHandler", "method", func() func(http.Handler) http.Handler { return hlog.MethodHandler("method") }, func(id int) string { m, _, _, _, _, _, _ := reqVals(id); return m }, false},
	{"RequestHandler", "request", func() func(http.Handler) http.Handler { return hlog.RequestHandler("request") }, func(id int) string { m, u, _, _, _, _, _ := reqVals(id); return m + " " + u }, false},
	{"RemoteAddrHandler", "remote", func() func(http.Handler) http.Handler { return hlog.RemoteAddrHandler("remote") }, func(id int) string { _, _, r, _, _, _, _ := reqVals(id); return r }, false},
	{"RemoteIPHandler", "ip", func() func(http.Handler) http.Handler { return hlog.RemoteIPHandler("ip") }, func(id int) string {
		_, _, r, _, _, _, _ := reqVals(id)
		h, _, _ := net.SplitHostPort(r)
		return h
	}, false},
	{"UserAgentHandler", "ua", func() func(http.Handler) http.Handler { return hlog.UserAgentHandler("ua") }, func(id int) string { _, _, _, u, _, _, _ := reqVals(id); return u }, false},
	{"RefererHandler", "referer", func() func(http.Handler) http.Handler { return hlog.RefererHandler("referer") }, func(id int) string { _, _, _, _, r, _, _ := reqVals(id); return r }, false},
	{"ProtoHandler", "proto", func() func(http.Handler) http.Handler { return hlog.ProtoHandler("proto") }, func(id int) string { return "HTTP/1.1" }, false},
	{"HTTPVersionHandler", "httpver", func() func(http.Handler) http.Handler { return hlog.HTTPVersionHandler("httpver") }, func(id int) string { return "1.1" }, false},
	{"CustomHeaderHandler", "custom", func() func(http.Handler) http.Handler { return hlog.CustomHeaderHandler("custom", "X-Custom") }, func(id int) string { _, _, _, _, _, c, _ := reqVals(id); return c }, false},
	{"HostHandler", "host", func() func(http.Handler) http.Handler { return hlog.HostHandler("host") }, func(id int) string { _, _, _, _, _, _, h := reqVals(id); return h }, false},
	{"HostHandler(trim)", "hostname", func() func(http.Handler) http.Handler { return hlog.HostHandler("hostname", true) }, func(id int) string {
		_, _, _, _, _, _, h := reqVals(id)
		return strings.TrimSuffix(h, ":80")
	}, false},
	{"RequestIDHandler", "req_id", func() func(http.Handler) http.Handler { return hlog.RequestIDHandler("req_id", "X-Req-Id") }, nil, false},
	{"EtagHandler", "etag", func() func(http.Handler) http.Handler { return hlog.EtagHandler("etag") }, func(id int) string { return fmt.Sprintf("etag-r%dx", id) }, true},
	{"ResponseHeaderHandler", "resph", func() func(http.Handler) http.Handler { return hlog.ResponseHeaderHandler("resph", "X-Resp") }, func(id int) string { return fmt.Sprintf("resp-r%dx", id) }, true},
}

var reMarker = regexp.MustCompile(`[rR](\d+)[xX]`)

func c18(args []string) int {
	f := mustFlags(args)
	out := evid.New("C18")
	rounds := f.N(290, 2400)
	maxLen := 4
	if f.Thorough() {
		maxLen = 5
	}
	// enumerate scripts exhaustively up to maxLen across rounds: script index advances globally
	scriptIdx := 0
	nScripts := 0
	for l, p := 0, 1; l <= maxLen; l++ {
		nScripts += p
		p *= nROps
	}
	scriptOf := func(i int) []int {
		i %= nScripts
		l, p := 0, 1
		for i >= p {
			i -= p
			p *= nROps
			l++
		}
		s := make([]int, l)
		for k := 0; k < l; k++ {
			s[k] = i % nROps
			i /= nROps
		}
		return s
	}
	for round := 0; round < rounds; round++ {
		R := []int{1, 8, 64, 512}[round%4]
		if !f.Thorough() && R == 512 {
			R = 128
		}
		specs := make([]reqSpec, R)
		for i := range specs {
			specs[i] = reqSpec{id: round*1000 + i + 1, caps: scriptIdx % 3, script: scriptOf(scriptIdx / 3), k: 1 + (scriptIdx % 2)}
			scriptIdx++
		}
		if !f.Mine(round) {
			continue
		}
		c18round(out, f, round, specs)
	}
	out.Extra["response_scripts_enumerated_up_to_length"] = maxLen
	out.Extra["distinct_scripts"] = nScripts
	out.Finish(f)
	return 0
}

func c18round(out *evid.Out, f *evid.Flags, round int, specs []reqSpec) {
	r := rng.New(f.Seed, 0xc18, uint64(round))
	viol := func(sig, desc string) {
		out.Violate(sig, fmt.Sprintf("round %d: %s", round, desc), map[string]interface{}{"check": "c18", "seed": f.Seed, "tier": f.Tier, "round": round})
	}
	dest := &syncRec{}
	base := zerolog.New(dest).With().Str("svc", "base").Logger()
	// chain: NewHandler, then a random subset/order of field handlers with AccessHandler somewhere
	perm := r.Intn(1 << uint(len(c18handlers)))
	var chosen []int
	for i := range c18handlers {
		if perm&(1<<uint(i)) != 0 {
			chosen = append(chosen, i)
		}
	}
	for i := len(chosen) - 1; i > 0; i-- {
		j := r.Intn(i + 1)
		chosen[i], chosen[j] = chosen[j], chosen[i]
	}
	accessPos := r.Intn(len(chosen) + 1)
	withAccess := r.Chance(4, 5)
	var accMu sync.Mutex
	access := map[int]accessRec{}
	accessCount := map[int]int{}
	idOf := func(req *http.Request) int {
		var id int
		fmt.Sscanf(req.Header.Get("X-Verif-Id"), "%d", &id)
		return id
	}
	specByID := map[int]*reqSpec{}
	for i := range specs {
		specByID[specs[i].id] = &specs[i]
	}
	var reqIDMu sync.Mutex
	reqIDSeen := map[int]string{}
	final := http.HandlerFunc(func(w http.ResponseWriter, req *http.Request) {
		id := idOf(req)
		sp := specByID[id]
		l := hlog.FromRequest(req)
		for i := 0; i < sp.k; i++ {
			l.Info().Int("i", i).Msg(fmt.Sprintf("final r%dx", id))
		}
		if xid, ok := hlog.IDFromRequest(req); ok {
			reqIDMu.Lock()
			reqIDSeen[id] = xid.String()
			reqIDMu.Unlock()
		}
		w.Header().Set("Etag", fmt.Sprintf("\"etag-r%dx\"", id))
		w.Header().Set("X-Resp", fmt.Sprintf("resp-r%dx", id))
		for _, op := range sp.script {
			switch op {
			case rWHa:
				w.WriteHeader(201)
			case rWHb:
				w.WriteHeader(404)
			case rW:
				w.Write([]byte("0123456789"))
			case rWshort:
				w.Write([]byte("SHORT56789AB"))
			case rWerr:
				w.Write([]byte("ERR3456"))
			case rRF:
				if rf, ok := w.(io.ReaderFrom); ok {
					rf.ReadFrom(strings.NewReader("abcdefg"))
				} else {
					w.Write([]byte("abcdefg"))
				}
			case rFlush:
				if fl, ok := w.(http.Flusher); ok {
					fl.Flush()
				}
			case rRFerr:
				// a source that fails half-way: 3 bytes are accepted, then the read error is returned
				src := io.MultiReader(strings.NewReader("xyz"), failingReader{})
				if rf, ok := w.(io.ReaderFrom); ok {
					rf.ReadFrom(src)
				} else {
					w.Write([]byte("xyz"))
				}
			}
		}
	})
	var h http.Handler = final
	// build inside-out
	order := append([]int{}, chosen...)
	for pos := len(order); pos >= 0; pos-- {
		if withAccess && pos == accessPos {
			h = hlog.AccessHandler(func(req *http.Request, status, size int, d time.Duration) {
				id := idOf(req)
				accMu.Lock()
				access[id] = accessRec{status, size, id}
				accessCount[id]++
				accMu.Unlock()
				hlog.FromRequest(req).Info().Int("status", status).Int("size", size).Msg(fmt.Sprintf("access r%dx", id))
			})(h)
		}
		if pos > 0 {
			h = c18handlers[order[pos-1]].mk()(h)
		}
	}
	h = hlog.NewHandler(base)(h)
	// serve concurrently
	fakes := make([]*fakeRW, len(specs))
	var wg sync.WaitGroup
	start := make(chan struct{})
	for i := range specs {
		sp := &specs[i]
		m, u, remote, ua, ref, custom, host := reqVals(sp.id)
		req, err := http.NewRequest(m, u, nil)
		if err != nil {
			fmt.Println("HARNESS-ERROR c18:", err)
			return
		}
		req.RemoteAddr = remote
		req.Host = host
		req.Header.Set("User-Agent", ua)
		req.Header.Set("Referer", ref)
		req.Header.Set("X-Custom", custom)
		req.Header.Set("X-Verif-Id", fmt.Sprint(sp.id))
		fk := &fakeRW{hdr: http.Header{}}
		fakes[i] = fk
		var w http.ResponseWriter = fk
		switch sp.caps {
		case 1:
			w = fakeFlushRW{fk}
		case 2:
			w = fakeFullRW{fk}
		}
		wg.Add(1)
		go func() {
			defer wg.Done()
			<-start
			h.ServeHTTP(w, req)
		}()
	}
	close(start)
	wg.Wait()
	// the base logger is unchanged
	n0 := len(dest.ev)
	base.Info().Msg("after")
	if got := string(dest.ev[n0]); got != `{"level":"info","svc":"base","message":"after"}`+"\n" {
		viol("base-logger-changed", fmt.Sprintf("the logger passed to NewHandler emits %q after serving %d requests", got, len(specs)))
	}
	// events
	byReq := map[int][]*jsonv.Node{}
	for _, b := range dest.ev[:n0] {
		obj, err := jsonv.ParseLine(b)
		if err != nil {
			viol("invalid-event", fmt.Sprintf("event is not valid JSON: %q", clipb(b)))
			continue
		}
		ids := map[string]bool{}
		for _, m := range reMarker.FindAllSubmatch(b, -1) {
			ids[string(m[1])] = true
		}
		if len(ids) != 1 {
			viol("foreign-value", fmt.Sprintf("event carries values of %d different requests: %q", len(ids), clipb(b)))
			continue
		}
		var id int
		for k := range ids {
			fmt.Sscan(k, &id)
		}
		byReq[id] = append(byReq[id], obj)
	}
	for i := range specs {
		sp := &specs[i]
		evs := byReq[sp.id]
		wantN := sp.k
		if withAccess {
			wantN++
		}
		if len(evs) != wantN {
			viol("event-count", fmt.Sprintf("request %d: %d events at the destination, expected %d", sp.id, len(evs), wantN))
			continue
		}
		// expected keys of the final handler's events: level, svc, pre-fields in chain order, i, message
		var pre []int
		for _, hi := range order {
			if !c18handlers[hi].post {
				pre = append(pre, hi)
			}
		}
		for _, obj := range evs {
			msg := obj.Get("message")
			if msg == nil || !strings.HasPrefix(msg.Str, "final") {
				continue
			}
			var wantKeys []string
			wantKeys = append(wantKeys, "level", "svc")
			for _, hi := range pre {
				wantKeys = append(wantKeys, c18handlers[hi].key)
			}
			wantKeys = append(wantKeys, "i", "message")
			var got []string
			for _, kv := range obj.Obj {
				got = append(got, kv.Key)
			}
			if fmt.Sprint(got) != fmt.Sprint(wantKeys) {
				viol("event-fields", fmt.Sprintf("request %d: event keys %v, expected %v", sp.id, got, wantKeys))
				continue
			}
			for _, hi := range pre {
				hh := c18handlers[hi]
				v := obj.Get(hh.key)
				if hh.want != nil {
					if v.Kind != jsonv.String || v.Str != hh.want(sp.id) {
						viol("field-value", fmt.Sprintf("request %d: %s=%s, expected %q", sp.id, hh.key, v.Raw, hh.want(sp.id)))
					}
				} else { // request id: equals response header and IDFromRequest
					hv := fakes[i].hdr.Get("X-Req-Id")
					reqIDMu.Lock()
					seen := reqIDSeen[sp.id]
					reqIDMu.Unlock()
					if v.Kind != jsonv.String || v.Str != hv || v.Str != seen || hv == "" {
						viol("request-id", fmt.Sprintf("request %d: req_id field %s, response header %q, IDFromRequest %q", sp.id, v.Raw, hv, seen))
					}
				}
			}
		}
		// AccessHandler: status and size actually sent
		wantStatus, wantSize := 0, 0
		for _, op := range sp.script {
			switch op {
			case rWHa:
				if wantStatus == 0 {
					wantStatus = 201
				}
			case rWHb:
				if wantStatus == 0 {
					wantStatus = 404
				}
			case rW, rWshort, rWerr, rRF, rRFerr:
				if wantStatus == 0 {
					wantStatus = 200
				}
				switch op {
				case rRFerr:
					wantSize += 3
				case rW:
					wantSize += 10
				case rWshort:
					wantSize += 6
				case rRF:
					wantSize += 7
				}
			}
		}
		fk := fakes[i]
		if fk.status != wantStatus || fk.accepted != wantSize {
			fmt.Printf("HARNESS-ERROR c18: fake writer recorded (%d,%d), script model says (%d,%d) for %v\n", fk.status, fk.accepted, wantStatus, wantSize, sp.script)
			out.Count("harness_inconsistency", 1)
		}
		if withAccess {
			ar, ok := access[sp.id]
			if !ok || accessCount[sp.id] != 1 {
				viol("access-calls", fmt.Sprintf("request %d: AccessHandler callback ran %d times", sp.id, accessCount[sp.id]))
			} else if ar.status != fk.status || ar.size != fk.accepted {
				names := make([]string, len(sp.script))
				for k, op := range sp.script {
					names[k] = rOpNames[op]
				}
				viol("access-status-size", fmt.Sprintf("request %d (capability set %d, calls %v): AccessHandler reported status=%d size=%d, the ResponseWriter recorded status=%d accepted=%d bytes (%v)",
					sp.id, sp.caps, names, ar.status, ar.size, fk.status, fk.accepted, fk.calls))
			}
		}
		out.Count("requests_served", 1)
		out.Case(rng.HashStr(fmt.Sprint(sp.script, sp.caps, order, accessPos, withAccess)), len(sp.script) > 0 || len(order) > 0)
	}
	out.Count(fmt.Sprintf("rounds_R_%d", len(specs)), 1)
	if round < 2 {
		var hn []string
		for _, hi := range order {
			hn = append(hn, c18handlers[hi].name)
		}
		names := []string{}
		for _, op := range specs[0].script {
			names = append(names, rOpNames[op])
		}
		s := map[string]interface{}{"handlers": hn, "access_handler_position": accessPos, "concurrent_requests": len(specs), "first_request_script": names}
		if len(dest.ev) > 0 {
			s["first_event"] = string(dest.ev[0])
		}
		out.Sample(s, 3)
	}
}
