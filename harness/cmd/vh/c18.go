package main

import (
	"bufio"
	"bytes"
	"context"
	"errors"
	"fmt"
	"io"
	"net"
	"net/http"
	"regexp"
	"sort"
	"strings"
	"sync"
	"time"

	"github.com/rs/xid"
	"github.com/rs/zerolog"
	"github.com/rs/zerolog/diode/verifh/evid"
	"github.com/rs/zerolog/diode/verifh/jsonv"
	"github.com/rs/zerolog/diode/verifh/rng"
	"github.com/rs/zerolog/hlog"
)

func init() { commands["c18"] = c18 }

// response script ops
const (
	rWHa = iota
	rWHb
	rW
	rWshort
	rWerr
	rRF
	rFlush
	rRFerr
	rW0
	rPanic
	rWH1xx
	nROps
)

var rOpNames = [...]string{"WriteHeader(201)", "WriteHeader(404)", "Write(10)", "Write(short)", "Write(err)", "ReadFrom(7)", "Flush", "ReadFrom(3 bytes then error)", "Write(0 bytes)", "panic(http.ErrAbortHandler)", "WriteHeader(103)"}

// fake ResponseWriters of three capability sets; they record what was actually sent.
type fakeRW struct {
	hdr      http.Header
	status   int // first status sent (200 if the body came first)
	accepted int
	calls    []string
}

func (f *fakeRW) Header() http.Header { return f.hdr }
func (f *fakeRW) WriteHeader(c int) {
	f.calls = append(f.calls, fmt.Sprintf("WriteHeader(%d)", c))
	if f.status == 0 {
		f.status = c
	}
}
func (f *fakeRW) Write(p []byte) (int, error) {
	if f.status == 0 {
		f.status = 200
	}
	switch {
	case bytes.HasPrefix(p, []byte("SHORT")):
		n := len(p) / 2
		f.accepted += n
		f.calls = append(f.calls, fmt.Sprintf("Write(%d)->%d,short", len(p), n))
		return n, io.ErrShortWrite
	case bytes.HasPrefix(p, []byte("ERR")):
		f.calls = append(f.calls, fmt.Sprintf("Write(%d)->0,err", len(p)))
		return 0, errors.New("conn reset")
	}
	f.accepted += len(p)
	f.calls = append(f.calls, fmt.Sprintf("Write(%d)", len(p)))
	return len(p), nil
}

type fakeFlushRW struct{ *fakeRW }

func (f fakeFlushRW) Flush() { f.calls = append(f.calls, "Flush") }

type fakeFullRW struct{ *fakeRW }

func (f fakeFullRW) Flush()                   { f.calls = append(f.calls, "Flush") }
func (f fakeFullRW) CloseNotify() <-chan bool { return make(chan bool) }
func (f fakeFullRW) Hijack() (net.Conn, *bufio.ReadWriter, error) {
	return nil, nil, errors.New("no hijack")
}
func (f fakeFullRW) ReadFrom(r io.Reader) (int64, error) {
	if f.status == 0 {
		f.status = 200
	}
	b, err := io.ReadAll(r)
	f.accepted += len(b)
	f.calls = append(f.calls, fmt.Sprintf("ReadFrom(%d)", len(b)))
	return int64(len(b)), err
}

// partial capability sets: Flusher + ReaderFrom without Hijacker / CloseNotifier, and an HTTP/2-like writer
// (Flusher + CloseNotifier, no Hijacker, no ReaderFrom)
type fakeFlushRFRW struct{ *fakeRW }

func (f fakeFlushRFRW) Flush() { f.calls = append(f.calls, "Flush") }
func (f fakeFlushRFRW) ReadFrom(r io.Reader) (int64, error) {
	return fakeFullRW{f.fakeRW}.ReadFrom(r)
}

type fakeH2RW struct{ *fakeRW }

func (f fakeH2RW) Flush()                   { f.calls = append(f.calls, "Flush") }
func (f fakeH2RW) CloseNotify() <-chan bool { return make(chan bool) }

const nCaps = 5

type failingReader struct{}

func (failingReader) Read([]byte) (int, error) { return 0, errors.New("source failed") }

type reqSpec struct {
	id     int
	caps   int // 0 basic, 1 +Flusher, 2 full, 3 Flusher+ReaderFrom, 4 Flusher+CloseNotifier
	script []int
	k      int // events logged by the final handler
}

type accessRec struct {
	status, size int
	reqID        int
}

// syncRec is the shared destination.
type syncRec struct {
	mu sync.Mutex
	ev [][]byte
}

func (s *syncRec) Write(p []byte) (int, error) {
	s.mu.Lock()
	s.ev = append(s.ev, append([]byte(nil), p...))
	s.mu.Unlock()
	return len(p), nil
}

type fieldH struct {
	name string
	key  string
	mk   func() func(http.Handler) http.Handler
	want func(id int) string // expected value for request id ("" = field absent)
	post bool                // field added after next returns
}

func reqVals(id int) (method, url, remote, ua, ref, custom, host string) {
	method, url = fmt.Sprintf("MR%dX", id), fmt.Sprintf("/path/r%dx?q=r%dx", id, id)
	remote = fmt.Sprintf("10.%d.%d.%d:%d", id>>16&255, id>>8&255, id&255, 1024+id%50000)
	ua, ref, custom, host = fmt.Sprintf("ua-r%dx", id), fmt.Sprintf("http://ref/r%dx", id), fmt.Sprintf("c-r%dx", id), fmt.Sprintf("host-r%dx.example:80", id)
	if id%5 == 0 {
		// the standard methods too (a HEAD or OPTIONS request whose handler writes a body is reported like any other)
		method = []string{"HEAD", "GET", "POST", "OPTIONS", "CONNECT", "PUT"}[id/5%6]
	}
	// some requests lack an attribute (the handlers then add no field) or carry another shape of it
	switch id % 16 {
	case 1:
		ua = ""
	case 2:
		ref = ""
	case 3:
		custom = ""
	case 4:
		remote = ""
	case 5:
		remote = fmt.Sprintf("[2001:db8::%x]:%d", id, 1024+id%50000)
	case 6:
		remote = fmt.Sprintf("unix-r%dx", id) // no port
	case 7:
		host = fmt.Sprintf("host-r%dx.example", id) // no port
	case 8:
		remote = fmt.Sprintf("2001:db8::%x", id) // an IPv6 literal without port or brackets (what real-IP middleware leaves behind)
	case 9:
		remote = "::1"
	case 10:
		// absolute-form request target (what a forward proxy receives, or a client-side request object)
		url = fmt.Sprintf("http://proxy-r%dx.example/abs/r%dx?q=r%dx", id, id, id)
	case 11:
		url = fmt.Sprintf("https://user-r%dx@proxy-r%dx.example:8443", id, id) // absolute, with userinfo and port, empty path
	case 12:
		url = fmt.Sprintf("/p%%20q/r%dx?a=b%%26c&d=%%e9", id) // escapes in path and query
	}
	return
}

func reqProto(id int) (string, int, int) {
	switch id % 3 {
	case 0:
		return "HTTP/1.0", 1, 0
	case 1:
		return "HTTP/2.0", 2, 0
	}
	return "HTTP/1.1", 1, 1
}

func wantRemoteIP(r string) string {
	if r == "" {
		return ""
	}
	h, _, err := net.SplitHostPort(r)
	if err != nil {
		return r
	}
	return h
}

var c18handlers = []fieldH{
	{"URLHandler", "url", func() func(http.Handler) http.Handler { return hlog.URLHandler("url") }, func(id int) string { _, u, _, _, _, _, _ := reqVals(id); return u }, false},
	{"MethodHandler", "method", func() func(http.Handler) http.Handler { return hlog.MethodHandler("method") }, func(id int) string { m, _, _, _, _, _, _ := reqVals(id); return m }, false},
	{"RequestHandler", "request", func() func(http.Handler) http.Handler { return hlog.RequestHandler("request") }, func(id int) string { m, u, _, _, _, _, _ := reqVals(id); return m + " " + u }, false},
	{"RemoteAddrHandler", "remote", func() func(http.Handler) http.Handler { return hlog.RemoteAddrHandler("remote") }, func(id int) string { _, _, r, _, _, _, _ := reqVals(id); return r }, false},
	{"RemoteIPHandler", "ip", func() func(http.Handler) http.Handler { return hlog.RemoteIPHandler("ip") }, func(id int) string {
		_, _, r, _, _, _, _ := reqVals(id)
		return wantRemoteIP(r)
	}, false},
	{"UserAgentHandler", "ua", func() func(http.Handler) http.Handler { return hlog.UserAgentHandler("ua") }, func(id int) string { _, _, _, u, _, _, _ := reqVals(id); return u }, false},
	{"RefererHandler", "referer", func() func(http.Handler) http.Handler { return hlog.RefererHandler("referer") }, func(id int) string { _, _, _, _, r, _, _ := reqVals(id); return r }, false},
	{"ProtoHandler", "proto", func() func(http.Handler) http.Handler { return hlog.ProtoHandler("proto") }, func(id int) string { p, _, _ := reqProto(id); return p }, false},
	{"HTTPVersionHandler", "httpver", func() func(http.Handler) http.Handler { return hlog.HTTPVersionHandler("httpver") }, func(id int) string { p, _, _ := reqProto(id); return strings.TrimPrefix(p, "HTTP/") }, false},
	{"CustomHeaderHandler", "custom", func() func(http.Handler) http.Handler { return hlog.CustomHeaderHandler("custom", "X-Custom") }, func(id int) string { _, _, _, _, _, c, _ := reqVals(id); return c }, false},
	// header names are case-insensitive: the same header configured in other spellings
	{"CustomHeaderHandler(lower-case name)", "custom_lc", func() func(http.Handler) http.Handler { return hlog.CustomHeaderHandler("custom_lc", "x-custom") }, func(id int) string { _, _, _, _, _, c, _ := reqVals(id); return c }, false},
	{"CustomHeaderHandler(upper-case name)", "custom_uc", func() func(http.Handler) http.Handler { return hlog.CustomHeaderHandler("custom_uc", "X-CUSTOM") }, func(id int) string { _, _, _, _, _, c, _ := reqVals(id); return c }, false},
	{"ResponseHeaderHandler(lower-case name)", "resph_lc", func() func(http.Handler) http.Handler { return hlog.ResponseHeaderHandler("resph_lc", "x-resp") }, func(id int) string { return fmt.Sprintf("resp-r%dx", id) }, true},
	{"HostHandler", "host", func() func(http.Handler) http.Handler { return hlog.HostHandler("host") }, func(id int) string { _, _, _, _, _, _, h := reqVals(id); return h }, false},
	{"HostHandler(trim)", "hostname", func() func(http.Handler) http.Handler { return hlog.HostHandler("hostname", true) }, func(id int) string {
		_, _, _, _, _, _, h := reqVals(id)
		return strings.TrimSuffix(h, ":80")
	}, false},
	{"RequestIDHandler", "req_id", func() func(http.Handler) http.Handler { return hlog.RequestIDHandler("req_id", "X-Req-Id") }, nil, false},
	{"RequestIDHandler(no header)", "req_id2", func() func(http.Handler) http.Handler { return hlog.RequestIDHandler("req_id2", "") }, nil, false},
	{"RequestIDHandler(no field)", "", func() func(http.Handler) http.Handler { return hlog.RequestIDHandler("", "X-Req-Id3") }, nil, false},
	{"EtagHandler", "etag", func() func(http.Handler) http.Handler { return hlog.EtagHandler("etag") }, func(id int) string { return fmt.Sprintf("etag-r%dx", id) }, true},
	{"ResponseHeaderHandler", "resph", func() func(http.Handler) http.Handler { return hlog.ResponseHeaderHandler("resph", "X-Resp") }, func(id int) string { return fmt.Sprintf("resp-r%dx", id) }, true},
}

var reMarker = regexp.MustCompile(`[rR](\d+)[xX]`)

func c18(args []string) int {
	f := mustFlags(args)
	out := evid.New("C18")
	rounds := f.N(290, 4600)
	maxLen := 3
	if f.Thorough() {
		maxLen = 4 // 11 operations: 16 105 scripts x 5 capability sets; the remaining requests get random longer scripts
	}
	// enumerate scripts exhaustively up to maxLen across rounds: script index advances globally
	scriptIdx := 0
	nScripts := 0
	for l, p := 0, 1; l <= maxLen; l++ {
		nScripts += p
		p *= nROps
	}
	scriptOf := func(i int) []int {
		if i >= nScripts {
			// beyond the enumeration: random longer scripts
			rr := rng.New(f.Seed, 0xc185, uint64(i))
			s := make([]int, maxLen+1+rr.Intn(5))
			for k := range s {
				s[k] = rr.Intn(nROps)
			}
			return s
		}
		l, p := 0, 1
		for i >= p {
			i -= p
			p *= nROps
			l++
		}
		s := make([]int, l)
		for k := 0; k < l; k++ {
			s[k] = i % nROps
			i /= nROps
		}
		return s
	}
	for round := 0; round < rounds; round++ {
		R := []int{1, 8, 64, 512}[round%4]
		if !f.Thorough() && R == 512 {
			R = 128
		}
		specs := make([]reqSpec, R)
		for i := range specs {
			specs[i] = reqSpec{id: round*1000 + i + 1, caps: scriptIdx % nCaps, script: scriptOf(scriptIdx / nCaps), k: 1 + (scriptIdx % 2)}
			scriptIdx++
		}
		if !f.Mine(round) {
			continue
		}
		c18round(out, f, round, specs)
	}
	out.Extra["response_scripts_enumerated_up_to_length"] = maxLen
	out.Extra["distinct_scripts"] = nScripts
	out.Extra["enumerated_script_x_capability_pairs"] = nScripts * nCaps
	if scriptIdx < nScripts*nCaps {
		out.Inconc(fmt.Sprintf("only %d of the %d (script, capability set) pairs were served", scriptIdx, nScripts*nCaps))
	}
	out.Extra["requests_beyond_the_enumeration"] = scriptIdx - nScripts*nCaps
	out.Finish(f)
	return 0
}

func c18round(out *evid.Out, f *evid.Flags, round int, specs []reqSpec) {
	r := rng.New(f.Seed, 0xc18, uint64(round))
	viol := func(sig, desc string) {
		out.Violate(sig, fmt.Sprintf("round %d: %s", round, desc), map[string]interface{}{"check": "c18", "seed": f.Seed, "tier": f.Tier, "round": round})
	}
	dest := &syncRec{}
	base := zerolog.New(dest).With().Str("svc", "base").Logger()
	// chain: NewHandler, then a random subset/order of field handlers with AccessHandler somewhere
	perm := r.Intn(1 << uint(len(c18handlers)))
	var chosen []int
	for i := range c18handlers {
		if perm&(1<<uint(i)) != 0 {
			chosen = append(chosen, i)
		}
	}
	for i := len(chosen) - 1; i > 0; i-- {
		j := r.Intn(i + 1)
		chosen[i], chosen[j] = chosen[j], chosen[i]
	}
	accessPos := r.Intn(len(chosen) + 1)
	access2Pos := -1 // a second, nested AccessHandler in a quarter of the rounds
	if r.Chance(1, 4) {
		access2Pos = r.Intn(len(chosen) + 1)
	}
	// in half of the nested rounds a middleware BETWEEN the two AccessHandlers sends something before the inner one
	// runs (a status, body bytes, or both): the outer AccessHandler reports everything that went out, the inner one
	// only what went through it (its own first WriteHeader / 200 / 0, its own byte count)
	prefixKind := 0 // 1: WriteHeader(202)+Write(7 bytes), 2: Write(7 bytes), 3: WriteHeader(202)
	innerWhich := 0
	if access2Pos >= 0 {
		if access2Pos >= accessPos {
			innerWhich = 1
		}
		if pr := rng.New(f.Seed, 0xc18f, uint64(round)); pr.Chance(1, 2) {
			prefixKind = 1 + pr.Intn(3)
			out.Count("rounds_with_a_writing_middleware_between_nested_access_handlers", 1)
		}
	}
	mkPrefix := func(next http.Handler) http.Handler {
		return http.HandlerFunc(func(w http.ResponseWriter, req *http.Request) {
			if prefixKind == 1 || prefixKind == 3 {
				w.WriteHeader(202)
			}
			if prefixKind == 1 || prefixKind == 2 {
				w.Write([]byte("PREFIX7"))
			}
			next.ServeHTTP(w, req)
		})
	}
	preSeed := r.Chance(1, 3) // some requests arrive with an id already in their context (CtxWithID)
	// in a third of the rounds every request's context derives from one shared context that already carries a logger
	// (what http.Server.BaseContext / ConnContext returning appLog.WithContext(ctx) gives): that logger is the
	// application's and stays as it is; the requests stay isolated
	var appCtx context.Context
	appDest := &syncRec{}
	if round%3 == 1 {
		appLog := zerolog.New(appDest).With().Str("svc", "app").Logger()
		appCtx = appLog.WithContext(context.Background())
		out.Count("rounds_with_a_logger_in_the_base_context", 1)
	}
	var accMu sync.Mutex
	access := map[[2]int]accessRec{}
	accessCount := map[[2]int]int{}
	idOf := func(req *http.Request) int {
		var id int
		fmt.Sscanf(req.Header.Get("X-Verif-Id"), "%d", &id)
		return id
	}
	specByID := map[int]*reqSpec{}
	for i := range specs {
		specByID[specs[i].id] = &specs[i]
	}
	var reqIDMu sync.Mutex
	reqIDSeen := map[int]string{}
	seeded := map[int]string{}
	final := http.HandlerFunc(func(w http.ResponseWriter, req *http.Request) {
		id := idOf(req)
		sp := specByID[id]
		l := hlog.FromRequest(req)
		for i := 0; i < sp.k; i++ {
			l.Info().Int("i", i).Msg(fmt.Sprintf("final r%dx", id))
		}
		if xid, ok := hlog.IDFromRequest(req); ok {
			reqIDMu.Lock()
			reqIDSeen[id] = xid.String()
			if x2, ok2 := hlog.IDFromCtx(req.Context()); !ok2 || x2 != xid {
				reqIDSeen[id] = fmt.Sprintf("IDFromRequest=%s but IDFromCtx=%s (ok=%v)", xid, x2, ok2)
			}
			reqIDMu.Unlock()
		}
		w.Header().Set("Etag", fmt.Sprintf("\"etag-r%dx\"", id))
		w.Header().Set("X-Resp", fmt.Sprintf("resp-r%dx", id))
		for _, op := range sp.script {
			switch op {
			case rWHa:
				w.WriteHeader(201)
			case rWHb:
				w.WriteHeader(404)
			case rWH1xx:
				w.WriteHeader(103)
			case rW:
				w.Write([]byte("0123456789"))
			case rW0:
				w.Write(nil)
			case rWshort:
				w.Write([]byte("SHORT56789AB"))
			case rWerr:
				w.Write([]byte("ERR3456"))
			case rRF:
				if rf, ok := w.(io.ReaderFrom); ok {
					rf.ReadFrom(strings.NewReader("abcdefg"))
				} else {
					w.Write([]byte("abcdefg"))
				}
			case rFlush:
				if fl, ok := w.(http.Flusher); ok {
					fl.Flush()
				}
			case rRFerr:
				// a source that fails half-way: 3 bytes are accepted, then the read error is returned
				src := io.MultiReader(strings.NewReader("xyz"), failingReader{})
				if rf, ok := w.(io.ReaderFrom); ok {
					rf.ReadFrom(src)
				} else {
					w.Write([]byte("xyz"))
				}
			case rPanic:
				panic(http.ErrAbortHandler) // what net/http documents for aborting a response
			}
		}
	})
	var h http.Handler = final
	mkAccess := func(which int, next http.Handler) http.Handler {
		return hlog.AccessHandler(func(req *http.Request, status, size int, d time.Duration) {
			id := idOf(req)
			accMu.Lock()
			access[[2]int{id, which}] = accessRec{status, size, id}
			accessCount[[2]int{id, which}]++
			accMu.Unlock()
			if which == 0 {
				hlog.FromRequest(req).Info().Int("status", status).Int("size", size).Msg(fmt.Sprintf("access r%dx", id))
			}
		})(next)
	}
	// build inside-out
	order := append([]int{}, chosen...)
	for pos := len(order); pos >= 0; pos-- {
		if pos == access2Pos {
			h = mkAccess(1, h)
			if prefixKind > 0 && innerWhich == 1 {
				h = mkPrefix(h)
			}
		}
		if pos == accessPos {
			h = mkAccess(0, h)
			if prefixKind > 0 && innerWhich == 0 {
				h = mkPrefix(h)
			}
		}
		if pos > 0 {
			h = c18handlers[order[pos-1]].mk()(h)
		}
	}
	inner := h
	h = http.HandlerFunc(func(w http.ResponseWriter, req *http.Request) {
		if id := idOf(req); preSeed && id%5 == 0 {
			x := xid.New()
			reqIDMu.Lock()
			seeded[id] = x.String()
			reqIDMu.Unlock()
			req = req.WithContext(hlog.CtxWithID(req.Context(), x))
		}
		inner.ServeHTTP(w, req)
	})
	h = hlog.NewHandler(base)(h)
	// serve concurrently
	fakes := make([]*fakeRW, len(specs))
	var wg sync.WaitGroup
	start := make(chan struct{})
	for i := range specs {
		sp := &specs[i]
		m, u, remote, ua, ref, custom, host := reqVals(sp.id)
		req, err := http.NewRequest(m, u, nil)
		if err != nil {
			fmt.Println("HARNESS-ERROR c18:", err)
			return
		}
		if appCtx != nil {
			req = req.WithContext(appCtx)
		}
		req.RemoteAddr = remote
		req.Host = host
		req.Proto, req.ProtoMajor, req.ProtoMinor = reqProto(sp.id)
		for k, v := range map[string]string{"User-Agent": ua, "Referer": ref, "X-Custom": custom} {
			if v != "" {
				req.Header.Set(k, v)
			}
		}
		req.Header.Set("X-Verif-Id", fmt.Sprint(sp.id))
		fk := &fakeRW{hdr: http.Header{}}
		fakes[i] = fk
		var w http.ResponseWriter = fk
		switch sp.caps {
		case 1:
			w = fakeFlushRW{fk}
		case 2:
			w = fakeFullRW{fk}
		case 3:
			w = fakeFlushRFRW{fk}
		case 4:
			w = fakeH2RW{fk}
		}
		wg.Add(1)
		go func() {
			defer wg.Done()
			defer func() {
				if x := recover(); x != nil && x != http.ErrAbortHandler {
					panic(x)
				}
			}()
			<-start
			h.ServeHTTP(w, req)
		}()
	}
	close(start)
	wg.Wait()
	// the base logger is unchanged
	n0 := len(dest.ev)
	base.Info().Msg("after")
	if got := string(dest.ev[n0]); got != `{"level":"info","svc":"base","message":"after"}`+"\n" {
		viol("base-logger-changed", fmt.Sprintf("the logger passed to NewHandler emits %q after serving %d requests", got, len(specs)))
	}
	if appCtx != nil {
		zerolog.Ctx(appCtx).Info().Msg("app")
		if len(appDest.ev) != 1 || string(appDest.ev[0]) != `{"level":"info","svc":"app","message":"app"}`+"\n" {
			viol("context-logger-changed", fmt.Sprintf("the logger carried by the requests' parent context emits %q after serving %d requests", appDest.ev, len(specs)))
		}
	}
	// events
	byReq := map[int][]*jsonv.Node{}
	for _, b := range dest.ev[:n0] {
		obj, err := jsonv.ParseLine(b)
		if err != nil {
			viol("invalid-event", fmt.Sprintf("event is not valid JSON: %q", clipb(b)))
			continue
		}
		ids := map[string]bool{}
		for _, m := range reMarker.FindAllSubmatch(b, -1) {
			ids[string(m[1])] = true
		}
		if len(ids) != 1 {
			viol("foreign-value", fmt.Sprintf("event carries values of %d different requests: %q", len(ids), clipb(b)))
			continue
		}
		var id int
		for k := range ids {
			fmt.Sscan(k, &id)
		}
		byReq[id] = append(byReq[id], obj)
	}
	hasIDHandler := false
	for _, hi := range order {
		if strings.HasPrefix(c18handlers[hi].name, "RequestIDHandler") {
			hasIDHandler = true
		}
	}
	idsThisRound := map[string]int{}
	for i := range specs {
		sp := &specs[i]
		evs := byReq[sp.id]
		// the script as far as it is executed (a panic ends it)
		script := sp.script
		for k, op := range script {
			if op == rPanic {
				script = script[:k+1]
				break
			}
		}
		nFinal, nAccess := 0, 0
		for _, obj := range evs {
			if msg := obj.Get("message"); msg != nil && strings.HasPrefix(msg.Str, "final") {
				nFinal++
			} else if msg != nil && strings.HasPrefix(msg.Str, "access") {
				nAccess++
			}
		}
		if len(evs) != sp.k+1 || nFinal != sp.k || nAccess != 1 {
			viol("event-count", fmt.Sprintf("request %d: %d events at the destination (%d from the final handler, %d from the access callback), expected %d + 1", sp.id, len(evs), nFinal, nAccess, sp.k))
			continue
		}
		// the request id every part of the chain must agree on
		reqIDMu.Lock()
		rid := reqIDSeen[sp.id]
		pre0 := seeded[sp.id]
		reqIDMu.Unlock()
		if hasIDHandler || pre0 != "" {
			if rid == "" || (pre0 != "" && rid != pre0) {
				viol("request-id", fmt.Sprintf("request %d: IDFromRequest in the final handler gave %q, id seeded with CtxWithID %q", sp.id, rid, pre0))
			}
			if hasIDHandler {
				idsThisRound[rid]++
			}
		}
		// expected fields: a handler adds its field when the attribute is present; pre-handlers add it before the
		// next handler runs (so every event of the request has it), post-handlers after next returned (the access
		// event has those of the handlers nested inside the AccessHandler)
		wantVal := func(hh fieldH) (string, bool) {
			if hh.want != nil {
				v := hh.want(sp.id)
				return v, v != ""
			}
			return rid, hh.key != ""
		}
		for _, obj := range evs {
			msg := obj.Get("message").Str
			want := map[string]string{}
			for pos, hi := range order {
				hh := c18handlers[hi]
				if hh.post && !(strings.HasPrefix(msg, "access") && pos >= accessPos) {
					continue
				}
				if v, ok := wantVal(hh); ok {
					want[hh.key] = v
				}
			}
			var gotKeys, wantKeys []string
			for _, kv := range obj.Obj {
				switch kv.Key {
				case "level", "svc", "i", "message", "status", "size":
					continue
				}
				gotKeys = append(gotKeys, kv.Key)
			}
			for k := range want {
				wantKeys = append(wantKeys, k)
			}
			sort.Strings(gotKeys)
			sort.Strings(wantKeys)
			if fmt.Sprint(gotKeys) != fmt.Sprint(wantKeys) {
				viol("event-fields", fmt.Sprintf("request %d, event %q: request fields %v, expected %v", sp.id, msg, gotKeys, wantKeys))
				continue
			}
			for k, wv := range want {
				if v := obj.Get(k); v.Kind != jsonv.String || (v.Str != wv && !(k == "etag" && v.Str == `"`+wv+`"`)) { // the Etag header value with or without its quotes
					viol("field-value", fmt.Sprintf("request %d, event %q: %s=%s, expected %q", sp.id, msg, k, v.Raw, wv))
				}
			}
			if sv := obj.Get("svc"); sv == nil || sv.Str != "base" {
				viol("field-value", fmt.Sprintf("request %d, event %q: the base logger's context is missing", sp.id, msg))
			}
		}
		for _, hi := range order {
			switch c18handlers[hi].name {
			case "RequestIDHandler":
				if hv := fakes[i].hdr.Get("X-Req-Id"); hv != rid {
					viol("request-id", fmt.Sprintf("request %d: response header X-Req-Id %q, IDFromRequest %q", sp.id, hv, rid))
				}
			case "RequestIDHandler(no field)":
				if hv := fakes[i].hdr.Get("X-Req-Id3"); hv != rid {
					viol("request-id", fmt.Sprintf("request %d: response header X-Req-Id3 %q, IDFromRequest %q", sp.id, hv, rid))
				}
			}
		}
		// AccessHandler: status and size actually sent
		wantStatus, wantSize := 0, 0
		for _, op := range script {
			switch op {
			case rWHa:
				if wantStatus == 0 {
					wantStatus = 201
				}
			case rWHb:
				if wantStatus == 0 {
					wantStatus = 404
				}
			case rWH1xx:
				if wantStatus == 0 {
					wantStatus = 103 // "the first WriteHeader", whatever its code
				}
			case rW, rW0, rWshort, rWerr, rRF, rRFerr:
				if wantStatus == 0 {
					wantStatus = 200
				}
				switch op {
				case rRFerr:
					wantSize += 3
				case rW:
					wantSize += 10
				case rWshort:
					wantSize += 6
				case rRF:
					wantSize += 7
				}
			}
		}
		fk := fakes[i]
		// what went through the inner AccessHandler alone (the script) and what went out in total (prefix + script)
		innerStatus, innerSize := wantStatus, wantSize
		switch prefixKind {
		case 1:
			wantStatus, wantSize = 202, wantSize+7
		case 2:
			wantStatus, wantSize = 200, wantSize+7
		case 3:
			wantStatus = 202
		}
		if fk.status != wantStatus || fk.accepted != wantSize {
			fmt.Printf("HARNESS-ERROR c18: fake writer recorded (%d,%d), script model says (%d,%d) for %v\n", fk.status, fk.accepted, wantStatus, wantSize, sp.script)
			out.Count("harness_inconsistency", 1)
		}
		for which := 0; which < 2; which++ {
			if which == 1 && access2Pos < 0 {
				continue
			}
			key := [2]int{sp.id, which}
			ar, ok := access[key]
			if !ok || accessCount[key] != 1 {
				viol("access-calls", fmt.Sprintf("request %d: AccessHandler callback %d ran %d times", sp.id, which, accessCount[key]))
			} else if prefixKind > 0 && which == innerWhich {
				if ar.status != innerStatus || ar.size != innerSize {
					viol("access-status-size:inner-of-nested", fmt.Sprintf("request %d (capability set %d): a middleware between two nested AccessHandlers sent prefix kind %d before the inner one ran; the inner AccessHandler reported status=%d size=%d, through it went status=%d and %d accepted bytes (in total the ResponseWriter recorded status=%d accepted=%d: %v)",
						sp.id, sp.caps, prefixKind, ar.status, ar.size, innerStatus, innerSize, fk.status, fk.accepted, fk.calls))
				}
				out.Count("inner_access_reports_compared_after_a_prefix", 1)
			} else if ar.status != fk.status || ar.size != fk.accepted {
				names := make([]string, len(script))
				for k, op := range script {
					names[k] = rOpNames[op]
				}
				viol("access-status-size", fmt.Sprintf("request %d (capability set %d, calls %v): AccessHandler %d reported status=%d size=%d, the ResponseWriter recorded status=%d accepted=%d bytes (%v)",
					sp.id, sp.caps, names, which, ar.status, ar.size, fk.status, fk.accepted, fk.calls))
			}
		}
		out.Count("requests_served", 1)
		if len(script) > 0 && script[len(script)-1] == rPanic {
			out.Count("requests_aborted_by_panic", 1)
		}
		out.Case(rng.HashStr(fmt.Sprint(sp.script, sp.caps, order, accessPos, access2Pos, prefixKind)), len(sp.script) > 0 || len(order) > 0)
	}
	for id, n := range idsThisRound {
		if n > 1 {
			viol("request-id-shared", fmt.Sprintf("%d concurrent requests of this round got the same request id %q", n, id))
		}
	}
	if hasIDHandler {
		out.Count("rounds_with_request_ids_compared", 1)
	}
	out.Count(fmt.Sprintf("rounds_R_%d", len(specs)), 1)
	if round < 2 {
		var hn []string
		for _, hi := range order {
			hn = append(hn, c18handlers[hi].name)
		}
		names := []string{}
		for _, op := range specs[0].script {
			names = append(names, rOpNames[op])
		}
		s := map[string]interface{}{"handlers": hn, "access_handler_position": accessPos, "second_access_handler_position": access2Pos, "concurrent_requests": len(specs), "first_request_script": names}
		if len(dest.ev) > 0 {
			s["first_event"] = string(dest.ev[0])
		}
		out.Sample(s, 3)
	}
}
