package main

import (
	"bufio"
	"bytes"
	"encoding/binary"
	"fmt"
	"io"
	"math"
	"math/big"
	"os"
	"regexp"
	"strconv"
	"time"

	"github.com/rs/zerolog/diode/verifh/evid"
	"github.com/rs/zerolog/diode/verifh/gen"
	"github.com/rs/zerolog/diode/verifh/jsonv"
	"github.com/rs/zerolog/diode/verifh/rng"
	"github.com/rs/zerolog/internal/cbor"
)

func init() { commands["c08-emit"] = c08emit; commands["c08-compare"] = c08compare }

func c08recPath(bin bool, shard int) string {
	return fmt.Sprintf("/verif/build/out/c08.%s.%d.rec", map[bool]string{true: "bin", false: "json"}[bin], shard)
}

func c08total(f *evid.Flags) int { return f.N(80000, 5000000) }

// c08emit runs the shared program list under this binary's encoding and records every write.
func c08emit(args []string) int {
	f := mustFlags(args)
	out := evid.New("C08")
	out.Sub = "emit"
	os.MkdirAll("/verif/build/out", 0o755)
	fh, err := os.Create(c08recPath(isBinaryBuild(), f.Shard))
	if err != nil {
		fmt.Println(err)
		return 2
	}
	w := bufio.NewWriterSize(fh, 1<<20)
	total := c08total(f)
	x := &gen.Exec{}
	put := func(idx, ei int, b []byte) {
		var hdr [12]byte
		binary.LittleEndian.PutUint32(hdr[0:], uint32(idx))
		binary.LittleEndian.PutUint32(hdr[4:], uint32(ei))
		binary.LittleEndian.PutUint32(hdr[8:], uint32(len(b)))
		w.Write(hdr[:])
		w.Write(b)
	}
	for idx := 0; idx < total; idx++ {
		if !f.Mine(idx) {
			continue
		}
		p := binCase(f, idx, true, nil)
		restore := p.S.Apply()
		res := x.Run(p)
		restore()
		if res.Panic != nil {
			out.Violate(sigOf("panic", fmt.Sprint(res.Panic)), fmt.Sprintf("panic %v", res.Panic), map[string]interface{}{"check": "c08", "index": idx, "program": p.Describe()})
			continue
		}
		var stream, singles []byte
		for ei, ws := range res.Writes {
			for _, wr := range ws {
				b := wr.P
				stream = append(stream, wr.P...)
				if isBinaryBuild() {
					// the bundled decoder; a panic inside it is a finding of this check too
					func() {
						defer func() {
							if r := recover(); r != nil {
								out.Violate("decoder-panic", fmt.Sprintf("DecodeIfBinaryToBytes panicked on an event zerolog emitted: %v", r), map[string]interface{}{"check": "c08", "index": idx, "program": p.Describe()})
								b = nil
							}
						}()
						b = cbor.DecodeIfBinaryToBytes(wr.P)
					}()
				}
				singles = append(singles, b...)
				put(idx, ei, b)
				out.Count("events_recorded", 1)
			}
		}
		if isBinaryBuild() && len(stream) > 0 {
			// a log file is the concatenation of the events: decoding it as one stream must give the lines the
			// events give one by one (no decoder state may leak from one event into the next)
			var whole bytes.Buffer
			var derr error
			func() {
				defer func() {
					if r := recover(); r != nil {
						derr = fmt.Errorf("panic: %v", r)
					}
				}()
				derr = cbor.Cbor2JsonManyObjects(bytes.NewReader(stream), &whole)
			}()
			if derr != nil || !bytes.Equal(whole.Bytes(), singles) {
				out.Violate("stream-decode-differs", fmt.Sprintf("decoding the program's %d-byte binary log as one stream gives (err=%v) %q, decoding its events one by one gives %q", len(stream), derr, clipb(whole.Bytes()), clipb(singles)),
					map[string]interface{}{"check": "c08", "index": idx, "program": p.Describe()})
			}
			out.Count("programs_decoded_as_one_stream", 1)
		}
	}
	w.Flush()
	fh.Close()
	out.Evaluations = out.Counters["events_recorded"]
	out.Extra["binary_log_build"] = isBinaryBuild()
	out.Finish(f)
	return 0
}

type recEv struct {
	idx, ei int
	b       []byte
}

func readRec(path string) (map[[2]int][]byte, error) {
	fh, err := os.Open(path)
	if err != nil {
		return nil, err
	}
	defer fh.Close()
	r := bufio.NewReaderSize(fh, 1<<20)
	m := map[[2]int][]byte{}
	var hdr [12]byte
	for {
		if _, err := io.ReadFull(r, hdr[:]); err != nil {
			if err == io.EOF {
				return m, nil
			}
			return nil, err
		}
		idx, ei, n := int(binary.LittleEndian.Uint32(hdr[0:])), int(binary.LittleEndian.Uint32(hdr[4:])), int(binary.LittleEndian.Uint32(hdr[8:]))
		b := make([]byte, n)
		if _, err := io.ReadFull(r, b); err != nil {
			return nil, err
		}
		if _, dup := m[[2]int{idx, ei}]; dup {
			return nil, fmt.Errorf("two writes recorded for program %d event %d", idx, ei)
		}
		m[[2]int{idx, ei}] = b
	}
}

func numEqual(a, b string) bool {
	if a == b {
		return true
	}
	x, ok1 := new(big.Float).SetPrec(2000).SetString(a)
	y, ok2 := new(big.Float).SetPrec(2000).SetString(b)
	return ok1 && ok2 && x.Cmp(y) == 0
}

func floatOf(n *jsonv.Node, bits int) (float64, bool) {
	if n.Kind == jsonv.String {
		switch n.Str {
		case "NaN":
			return math.NaN(), true
		case "+Inf":
			return math.Inf(1), true
		case "-Inf":
			return math.Inf(-1), true
		}
		return 0, false
	}
	if n.Kind != jsonv.Number {
		return 0, false
	}
	f, err := strconv.ParseFloat(n.Num, bits)
	return f, err == nil
}

// cmp08 compares the JSON build's value J with the decoded binary build's value D for intent in.
func cmp08(J, D *jsonv.Node, in *gen.Intent, s *gen.Settings) error {
	switch in.K {
	case gen.INull:
		if J.Kind == jsonv.Null && D.Kind == jsonv.Null {
			return nil
		}
		// under a caller-supplied InterfaceMarshalFunc some nil values are rendered by that function (or by its error
		// text): whatever it is, both builds must show the same
		if s.IfaceMarshal == 0 || !bytes.Equal(J.Raw, D.Raw) {
			return fmt.Errorf("nil: json %s, decoded binary %s", clipJ(J.Raw), clipJ(D.Raw))
		}
	case gen.IBool:
		if J.Kind != jsonv.Bool || D.Kind != jsonv.Bool || J.B != D.B {
			return fmt.Errorf("bool: json %s, decoded binary %s", J.Raw, D.Raw)
		}
	case gen.IInt, gen.IUint:
		if J.Kind != jsonv.Number || D.Kind != jsonv.Number || !numEqual(J.Num, D.Num) {
			return fmt.Errorf("integer: json %s, decoded binary %s", clipJ(J.Raw), clipJ(D.Raw))
		}
	case gen.IF32, gen.IF64:
		bits := 64
		if in.K == gen.IF32 {
			bits = 32
		}
		a, ok1 := floatOf(J, bits)
		b, ok2 := floatOf(D, bits)
		if !ok1 || !ok2 || !(a == b || (a != a && b != b)) || J.Kind != D.Kind {
			return fmt.Errorf("float%d: json %s, decoded binary %s", bits, clipJ(J.Raw), clipJ(D.Raw))
		}
	case gen.IDur:
		if s.DurationFieldInteger {
			if J.Kind != jsonv.Number || D.Kind != jsonv.Number || !numEqual(J.Num, D.Num) {
				return fmt.Errorf("duration: json %s, decoded binary %s", J.Raw, D.Raw)
			}
			return nil
		}
		a, ok1 := floatOf(J, 64)
		b, ok2 := floatOf(D, 64)
		if !ok1 || !ok2 || !(a == b || (a != a && b != b)) {
			return fmt.Errorf("duration: json %s, decoded binary %s", J.Raw, D.Raw)
		}
	case gen.ITime:
		// JSON side must be the specified rendering of T; the decoded binary side the same instant within 1 us
		if err := gen.MatchJSON(J, in, s); err != nil {
			return fmt.Errorf("time (json side): %v", err)
		}
		if D.Kind != jsonv.String {
			return fmt.Errorf("time: decoded binary %s is not a string", clipJ(D.Raw))
		}
		t, err := time.Parse(time.RFC3339Nano, D.Str)
		if err != nil {
			return fmt.Errorf("time: decoded binary %q does not parse: %v", D.Str, err)
		}
		d := t.Sub(in.T)
		if d < 0 {
			d = -d
		}
		if d > time.Microsecond {
			return fmt.Errorf("time: logged %s, decoded binary %s (off by %v)", in.T.UTC().Format(time.RFC3339Nano), D.Str, d)
		}
	case gen.IStr, gen.IBytes, gen.IType, gen.IHex, gen.IRawCBOR, gen.IIP, gen.IIPNet, gen.IMAC:
		if J.Kind != jsonv.String || D.Kind != jsonv.String || J.Str != D.Str {
			return fmt.Errorf("%s: json %s, decoded binary %s", in.K, clipJ(J.Raw), clipJ(D.Raw))
		}
	case gen.IRawJSON:
		if !bytes.Equal(J.Raw, D.Raw) {
			return fmt.Errorf("embedded JSON not verbatim: json %s, decoded binary %s", clipJ(J.Raw), clipJ(D.Raw))
		}
	case gen.IIface:
		if _, es := gen.RefIfaceS(in.V, s); es != "" {
			if J.Kind != jsonv.String || D.Kind != jsonv.String || J.Str != D.Str {
				return fmt.Errorf("marshal error text: json %s, decoded binary %s", clipJ(J.Raw), clipJ(D.Raw))
			}
			return nil
		}
		if !bytes.Equal(J.Raw, D.Raw) {
			return fmt.Errorf("interface JSON not verbatim: json %s, decoded binary %s", clipJ(J.Raw), clipJ(D.Raw))
		}
	case gen.IArr:
		if J.Kind != jsonv.Array || D.Kind != jsonv.Array || len(J.Arr) != len(D.Arr) || len(J.Arr) != len(in.Elems) {
			return fmt.Errorf("array: json %s, decoded binary %s", clipJ(J.Raw), clipJ(D.Raw))
		}
		for i, e := range in.Elems {
			if err := cmp08(J.Arr[i], D.Arr[i], e, s); err != nil {
				return fmt.Errorf("[%d]: %v", i, err)
			}
		}
	case gen.IObj:
		if J.Kind != jsonv.Object || D.Kind != jsonv.Object {
			return fmt.Errorf("object: json %s, decoded binary %s", clipJ(J.Raw), clipJ(D.Raw))
		}
		return cmp08Fields(J, D, in.Fields, s)
	}
	return nil
}

func cmp08Fields(J, D *jsonv.Node, want []gen.KVI, s *gen.Settings) error {
	if len(J.Obj) != len(D.Obj) || len(J.Obj) != len(want) {
		return fmt.Errorf("member count: json %d, decoded binary %d, logged %d", len(J.Obj), len(D.Obj), len(want))
	}
	for i, w := range want {
		if J.Obj[i].Key != D.Obj[i].Key {
			return fmt.Errorf("member %d key: json %q, decoded binary %q", i, J.Obj[i].Key, D.Obj[i].Key)
		}
		if err := cmp08(J.Obj[i].Val, D.Obj[i].Val, w.Val, s); err != nil {
			return fmt.Errorf("member %d (%q): %v", i, J.Obj[i].Key, err)
		}
	}
	return nil
}

func clipJ(b []byte) string {
	if len(b) > 100 {
		return fmt.Sprintf("%q...(%d bytes)", b[:80], len(b))
	}
	return fmt.Sprintf("%q", b)
}

func c08compare(args []string) int {
	f := mustFlags(args)
	out := evid.New("C08")
	jm, err := readRec(c08recPath(false, f.Shard))
	if err != nil {
		fmt.Println("c08-compare:", err)
		return 2
	}
	bm, err := readRec(c08recPath(true, f.Shard))
	if err != nil {
		fmt.Println("c08-compare:", err)
		return 2
	}
	total := c08total(f)
	var hits [9]map[string]int
	for idx := 0; idx < total; idx++ {
		if !f.Mine(idx) {
			continue
		}
		p := binCase(f, idx, true, &hits)
		h := rng.HashStr(p.S.String())
		nw := 0
		for ei := range p.Events {
			ex := &p.Expect[ei]
			jb, jok := jm[[2]int{idx, ei}]
			db, dok := bm[[2]int{idx, ei}]
			rep := func(extra map[string]interface{}) map[string]interface{} {
				m := map[string]interface{}{"check": "c08", "seed": f.Seed, "tier": f.Tier, "index": idx, "event": ei, "program": p.Describe(),
					"json_build": fmt.Sprintf("%q", clipb(jb)), "binary_build_decoded": fmt.Sprintf("%q", clipb(db))}
				for k, v := range extra {
					m[k] = v
				}
				return m
			}
			if jok != ex.Written || dok != ex.Written {
				out.Violate("written-differs", fmt.Sprintf("event %d: specified written=%v, json build wrote=%v, binary build wrote=%v", ei, ex.Written, jok, dok), rep(nil))
				continue
			}
			if !ex.Written {
				continue
			}
			nw++
			h = h*0x100000001b3 ^ rng.Hash64(jb)
			J, err := jsonv.ParseLine(jb)
			if err != nil {
				out.Violate(sigOf("json-build-invalid", err.Error()), fmt.Sprintf("json build event invalid: %v", err), rep(nil))
				continue
			}
			D, err := jsonv.ParseLine(db)
			if err != nil {
				out.Violate("decoded-invalid", fmt.Sprintf("decoded binary event is not one valid JSON object line: %v: %q", err, clipb(db)), rep(nil))
				continue
			}
			if err := cmp08Fields(J, D, ex.Fields, &p.S); err != nil {
				out.Violate("differs:"+c08kind(err.Error()), fmt.Sprintf("event %d: binary build decodes differently from the json build: %v", ei, err), rep(map[string]interface{}{"error": err.Error()}))
			}
		}
		out.Count("events_compared", int64(nw))
		out.Case(h, nw > 0 && p.Containers > 0)
		if idx%(total/5+1) == 0 && len(p.Events) > 0 {
			out.Sample(map[string]interface{}{"index": idx, "program": p.Describe(), "json_build": fmt.Sprintf("%q", clipb(jm[[2]int{idx, 0}])), "binary_build_decoded": fmt.Sprintf("%q", clipb(bm[[2]int{idx, 0}]))}, 5)
		}
	}
	out.Matrix = map[string]map[string]int{}
	for fe, m := range hits {
		if m != nil {
			out.Matrix[gen.FeNames[fe]] = m
		}
	}
	os.Remove(c08recPath(false, f.Shard))
	os.Remove(c08recPath(true, f.Shard))
	out.Finish(f)
	return 0
}

var reC08Kind = regexp.MustCompile(`([a-z][a-zA-Z0-9 ()]*): (json|logged|decoded)`)

// c08kind extracts the innermost value kind named in a comparison error.
func c08kind(msg string) string {
	m := reC08Kind.FindAllStringSubmatch(msg, -1)
	if len(m) == 0 {
		return "other"
	}
	return m[len(m)-1][1]
}
