package main

import (
	"fmt"
	"time"

	"github.com/rs/zerolog/diode/verifh/evid"
	"github.com/rs/zerolog/diode/verifh/gen"
	"github.com/rs/zerolog/diode/verifh/jsonv"
	"github.com/rs/zerolog/diode/verifh/rng"
)

func init() { commands["c01"] = c01 }

// genCase builds the idx-th program of the shared C01/C02/C03 case list.
//
//	idx < nExh : the class-string program of string idx under rotating settings
//	otherwise  : a random program
func c01Case(f *evid.Flags, idx, nExh int, hits *[9]map[string]int) (*gen.Program, *gen.G) {
	r := rng.New(f.Seed, 0xc01, uint64(idx))
	g := &gen.G{R: r, Hits: hits}
	g.V = gen.V{R: r, Big: f.Thorough() || r.Chance(1, 40)}
	g.P = gen.Profile{MaxDepth: 4, UpdateAnywhere: true, CustomIface: true}
	if f.Thorough() {
		g.P.MaxDepth = 7
	}
	st := g.RandomSettings(true)
	if r.Chance(1, 12) {
		// duration units no other check uses: negative, and zero (float form only: the integer form divides by it)
		st.DurationFieldUnit = []time.Duration{0, -1, -1000000}[r.Intn(3)]
		if st.DurationFieldUnit == 0 {
			st.DurationFieldInteger = false
		}
	}
	g.S = &st
	if idx < nExh {
		return gen.ClassStringProgram(gen.ClassString(idx), st), g
	}
	return g.GenProgram(6, 3, 8), g
}

func c01(args []string) int {
	f := mustFlags(args)
	out := evid.New("C01")
	L := 2
	if f.Thorough() {
		L = 3
	}
	nExh := gen.NClassStrings(L)
	total := nExh + f.N(200000, 5000000)
	var hits [9]map[string]int
	x := &gen.Exec{}
	for idx := 0; idx < total; idx++ {
		if !f.Mine(idx) {
			continue
		}
		p, _ := c01Case(f, idx, nExh, &hits)
		restore := p.S.Apply()
		if idx%4 == 0 {
			poolHistory(idx / 2)
		}
		res := x.Run(p)
		restore()
		h := rng.HashStr(p.S.String())
		nontrivial := p.Containers > 0
		nw := 0
		if res.Panic != nil {
			out.Violate(sigOf("panic", fmt.Sprint(res.Panic)), fmt.Sprintf("panic %v", res.Panic),
				map[string]interface{}{"check": "c01", "seed": f.Seed, "tier": f.Tier, "index": idx, "program": p.Describe(), "panic": fmt.Sprint(res.Panic)})
		}
		for ei, ws := range res.Writes {
			for _, w := range ws {
				nw++
				h = h*0x100000001b3 ^ rng.Hash64(w.P)
				if !plainASCII(w.P) {
					nontrivial = true
				}
				if _, err := jsonv.ParseLine(w.P); err != nil {
					out.Violate(sigOf("invalid", err.Error()), fmt.Sprintf("event is not one well-formed JSON line: %v: %q", err, clipb(w.P)),
						map[string]interface{}{"check": "c01", "seed": f.Seed, "tier": f.Tier, "index": idx, "event": ei,
							"program": p.Describe(), "bytes": fmt.Sprintf("%q", clipb(w.P)), "error": err.Error()})
				}
			}
		}
		out.Count("events_written", int64(nw))
		out.Count("events_issued", int64(len(p.Events)))
		if idx < nExh {
			out.Count("class_string_programs", 1)
		}
		out.Case(h, nontrivial && nw > 0)
		if idx%(total/6+1) == 0 {
			s := map[string]interface{}{"index": idx, "program": p.Describe()}
			if len(res.Writes) > 0 && len(res.Writes[0]) > 0 {
				s["first_event_bytes"] = fmt.Sprintf("%q", clipb(res.Writes[0][0].P))
			}
			out.Sample(s, 6)
		}
	}
	out.Matrix = map[string]map[string]int{}
	for fe, m := range hits {
		if m != nil {
			out.Matrix[gen.FeNames[fe]] = m
		}
	}
	out.Extra["class_string_max_len"] = L
	out.Extra["total_cases_all_shards"] = total
	if f.Shard == 0 {
		ctxReuse(out, "C01")
	}
	out.Finish(f)
	return 0
}

func clipb(b []byte) []byte {
	if len(b) > 600 {
		return append(append([]byte{}, b[:600]...), "...(clipped)"...)
	}
	return b
}
