package main

import (
	"fmt"
	"sync"
	"sync/atomic"
	"time"

	"github.com/anishathalye/porcupine"
	"github.com/rs/zerolog"
	"github.com/rs/zerolog/diode/verifh/evid"
	"github.com/rs/zerolog/diode/verifh/rng"
)

func init() { commands["c13"] = c13; commands["c13-conc"] = c13conc }

// reference models -------------------------------------------------------------------------------------

type refSampler interface {
	sample(now int64, lvl zerolog.Level) bool
}

type refBasic struct {
	n uint32
	c uint64
}

func (s *refBasic) sample(int64, zerolog.Level) bool {
	if s.n == 0 {
		return false
	}
	if s.n == 1 {
		return true
	}
	s.c++
	return s.c%uint64(s.n) == 1
}

type refBurst struct {
	burst  uint32
	period int64
	next   refSampler
	count  uint64
	end    int64
	open   bool
}

func (s *refBurst) sample(now int64, lvl zerolog.Level) bool {
	if s.burst > 0 && s.period > 0 {
		if !s.open || now >= s.end {
			s.open = true
			s.end = now + s.period
			s.count = 1
		} else {
			s.count++
		}
		if s.count <= uint64(s.burst) {
			return true
		}
	}
	if s.next == nil {
		return false
	}
	return s.next.sample(now, lvl)
}

type refConst bool

func (c refConst) sample(int64, zerolog.Level) bool { return bool(c) }

type constSampler bool

func (c constSampler) Sample(zerolog.Level) bool { return bool(c) }

// mkNext builds the real NextSampler and its reference for variant v.
func mkNext(v int, P time.Duration) (zerolog.Sampler, refSampler, string) {
	switch v {
	case 1:
		return &zerolog.BasicSampler{N: 2}, &refBasic{n: 2}, "Basic{2}"
	case 2:
		return &zerolog.BurstSampler{Burst: 1, Period: P}, &refBurst{burst: 1, period: int64(P)}, "Burst{1,P}"
	case 3:
		return constSampler(true), refConst(true), "admit-all"
	case 4:
		return constSampler(false), refConst(false), "reject-all"
	}
	return nil, nil, "nil"
}

func c13(args []string) int {
	f := mustFlags(args)
	out := evid.New("C13")
	const P = 1000
	var clock int64
	oldTS := zerolog.TimestampFunc
	zerolog.TimestampFunc = func() time.Time { return time.Unix(0, clock) }
	defer func() { zerolog.TimestampFunc = oldTS }()
	alphabet := []int64{1, 2, P - 1, P, P + 1, 2 * P, 3*P + 1}
	maxLen := 6
	if f.Thorough() {
		maxLen = 8
	}
	// 1. bounded-exhaustive Burst histories
	nseq := 1
	for i := 0; i < maxLen; i++ {
		nseq *= len(alphabet)
	}
	var calls int64
	seq := make([]int64, maxLen)
	for si := 0; si < nseq; si++ {
		if !f.Mine(si) {
			continue
		}
		x := si
		for i := 0; i < maxLen; i++ {
			seq[i] = alphabet[x%len(alphabet)]
			x /= len(alphabet)
		}
		for burst := uint32(0); burst <= 3; burst++ {
			for _, period := range []time.Duration{0, P} {
				for nv := 0; nv <= 4; nv++ {
					next, rnext, nname := mkNext(nv, P)
					s := &zerolog.BurstSampler{Burst: burst, Period: period, NextSampler: next}
					ref := &refBurst{burst: burst, period: int64(period), next: rnext}
					for i := 0; i < maxLen; i++ {
						clock = seq[i]
						got := s.Sample(zerolog.InfoLevel)
						want := ref.sample(clock, zerolog.InfoLevel)
						calls++
						if got != want {
							out.Violate("burst-model", fmt.Sprintf("BurstSampler{Burst:%d Period:%d Next:%s} clock readings %v: call %d returned %v, specified %v", burst, period, nname, seq[:i+1], i, got, want),
								map[string]interface{}{"check": "c13", "burst": burst, "period": int64(period), "next": nname, "clock": append([]int64(nil), seq[:i+1]...)})
							break
						}
					}
					out.Case(uint64(si)*64+uint64(burst)*16+uint64(nv)*2+uint64(period/P), burst > 0 && period > 0)
				}
			}
		}
	}
	out.Count("burst_exhaustive_histories", int64(out.Evaluations))
	out.Count("sample_calls", calls)
	// 2. random long histories with non-monotonic clocks, random parameters
	nr := f.N(20000, 1000000)
	for i := 0; i < nr; i++ {
		if !f.Mine(i) {
			continue
		}
		r := rng.New(f.Seed, 0xc13, uint64(i))
		burst := uint32(r.Intn(6))
		period := time.Duration([]int64{0, 1, 7, 1000, 1 << 40}[r.Intn(5)])
		nv := r.Intn(5)
		next, rnext, nname := mkNext(nv, period+1)
		s := &zerolog.BurstSampler{Burst: burst, Period: period, NextSampler: next}
		ref := &refBurst{burst: burst, period: int64(period), next: rnext}
		var hist []int64
		now := int64(1 + r.Intn(1000))
		for j := 0; j < 200; j++ {
			switch r.Intn(5) {
			case 0:
				now -= int64(r.Intn(2000)) // back-step
				if now < 1 {
					now = 1
				}
			case 1:
				now += int64(period)
			case 2:
				now += int64(period) - 1 + int64(r.Intn(3))
			default:
				now += int64(r.Intn(5))
			}
			if now < 1 {
				now = 1
			}
			clock = now
			hist = append(hist, now)
			got, want := s.Sample(zerolog.DebugLevel), ref.sample(now, zerolog.DebugLevel)
			if got != want {
				out.Violate("burst-model", fmt.Sprintf("BurstSampler{Burst:%d Period:%d Next:%s} after %d calls returned %v, specified %v (clock tail %v)", burst, period, nname, j+1, got, want, hist[max0(len(hist)-8):]),
					map[string]interface{}{"check": "c13", "burst": burst, "period": int64(period), "next": nname, "clock": hist})
				break
			}
		}
		out.Case(rng.HashStr(fmt.Sprint("r", i, burst, period, nv)), true)
		out.Count("burst_random_histories", 1)
	}
	if f.Shard == 0 {
		c13Basic(out)
		c13Level(out)
		c13Logger(out, &clock)
		out.Sample(map[string]interface{}{"sampler": "BurstSampler{Burst:2 Period:1000 Next:Basic{2}}", "clock_readings": []int64{1, 2, 999, 1000, 1001, 2000}, "note": "returns compared call by call with the reference model"}, 5)
	}
	out.Extra["burst_history_length"] = maxLen
	out.Exhaustive = false
	out.Finish(f)
	return 0
}

func max0(x int) int {
	if x < 0 {
		return 0
	}
	return x
}

func c13Basic(out *evid.Out) {
	for n := uint32(0); n <= 40; n++ {
		s := &zerolog.BasicSampler{N: n}
		admitted := 0
		for k := 1; k <= 500; k++ {
			got := s.Sample(zerolog.InfoLevel)
			if got {
				admitted++
			}
			want := 0
			if n == 1 {
				want = k
			} else if n > 1 {
				want = (k + int(n) - 1) / int(n)
			}
			if admitted != want || (k == 1 && n >= 1 && !got) {
				out.Violate("basic-share", fmt.Sprintf("BasicSampler{N:%d}: after %d calls admitted %d, specified ceil(k/N)=%d", n, k, admitted, want),
					map[string]interface{}{"check": "c13", "N": n, "k": k})
				break
			}
		}
		out.Case(rng.HashStr(fmt.Sprint("basic", n)), true)
		out.Count("basic_sequential_parameters", 1)
	}
}

func c13Level(out *evid.Out) {
	mk := func(id int, log *[]int) zerolog.Sampler { return recSampler{id, log, id%2 == 0} }
	for mask := 0; mask < 32; mask++ {
		var log []int
		var ls zerolog.LevelSampler
		if mask&1 != 0 {
			ls.TraceSampler = mk(-1, &log)
		}
		if mask&2 != 0 {
			ls.DebugSampler = mk(0, &log)
		}
		if mask&4 != 0 {
			ls.InfoSampler = mk(1, &log)
		}
		if mask&8 != 0 {
			ls.WarnSampler = mk(2, &log)
		}
		if mask&16 != 0 {
			ls.ErrorSampler = mk(3, &log)
		}
		for lv := -128; lv <= 127; lv++ {
			log = log[:0]
			got := ls.Sample(zerolog.Level(lv))
			configured := lv >= -1 && lv <= 3 && mask&(1<<uint(lv+1)) != 0
			want := true
			wantLog := 0
			if configured {
				want = lv%2 == 0
				wantLog = 1
			}
			if got != want || len(log) != wantLog || (wantLog == 1 && log[0] != lv) {
				out.Violate("level-sampler", fmt.Sprintf("LevelSampler(mask %05b).Sample(%d) = %v consulted %v; specified %v, consult only the sampler of that level", mask, lv, got, log, want),
					map[string]interface{}{"check": "c13", "mask": mask, "level": lv})
			}
			out.Count("level_sampler_cases", 1)
		}
		out.Case(rng.HashStr(fmt.Sprint("level", mask)), true)
	}
}

type recSampler struct {
	id    int
	log   *[]int
	admit bool
}

func (r recSampler) Sample(zerolog.Level) bool { *r.log = append(*r.log, r.id); return r.admit }

// c13Logger: samplers behind a Logger: only events that pass the level gate consume budget; the
// writer sees exactly the admitted ones; DisableSampling(true) admits everything.
func c13Logger(out *evid.Out, clock *int64) {
	for seed := uint64(0); seed < 300; seed++ {
		r := rng.New(seed, 0xc13b)
		w := &cntW{}
		n := uint32(r.Intn(5))
		burst := uint32(r.Intn(3))
		P := time.Duration(50)
		bs := &zerolog.BurstSampler{Burst: burst, Period: P, NextSampler: &zerolog.BasicSampler{N: n}}
		ref := &refBurst{burst: burst, period: int64(P), next: &refBasic{n: n}}
		lg := zerolog.Level(r.Intn(4))
		gl := zerolog.Level(r.Intn(3) - 1)
		zerolog.SetGlobalLevel(gl)
		l := zerolog.New(w).Level(lg).Sample(bs)
		now := int64(1)
		for i := 0; i < 120; i++ {
			now += int64(r.Intn(30))
			*clock = now
			ev := zerolog.Level(r.Intn(6) - 1)
			disable := r.Chance(1, 10)
			if disable {
				zerolog.DisableSampling(true)
			}
			w.n = 0
			l.WithLevel(ev).Msg("m")
			if disable {
				zerolog.DisableSampling(false)
			}
			want := false
			if ev >= lg && ev >= gl {
				if disable {
					want = true
				} else {
					want = ref.sample(now, ev)
				}
			}
			if (w.n == 1) != want {
				out.Violate("logger-sampling", fmt.Sprintf("logger(level %d, global %d, Burst{%d,%d}->Basic{%d}) event %d level %d DisableSampling=%v: written=%v specified=%v", lg, gl, burst, P, n, i, ev, disable, w.n == 1, want),
					map[string]interface{}{"check": "c13", "seed": seed})
				break
			}
			out.Count("logger_sampling_events", 1)
		}
		out.Case(rng.HashStr(fmt.Sprint("logger", seed)), true)
	}
	zerolog.SetGlobalLevel(zerolog.TraceLevel)
}

// ---- concurrent BasicSampler ---------------------------------------------------------------------------

type sampIn struct{}

func c13conc(args []string) int {
	f := mustFlags(args)
	out := evid.New("C13")
	out.Sub = "concurrent"
	runs := f.N(200, 3000)
	for run := 0; run < runs; run++ {
		if !f.Mine(run) {
			continue
		}
		r := rng.New(f.Seed, 0xc13c, uint64(run))
		N := uint32(2 + r.Intn(6))
		G := 2 + r.Intn(15)
		k := 1 + r.Intn(300)
		s := &zerolog.BasicSampler{N: N}
		var admitted int64
		var wg sync.WaitGroup
		start := make(chan struct{})
		for g := 0; g < G; g++ {
			wg.Add(1)
			go func() {
				defer wg.Done()
				<-start
				for i := 0; i < k; i++ {
					if s.Sample(zerolog.InfoLevel) {
						atomic.AddInt64(&admitted, 1)
					}
				}
			}()
		}
		close(start)
		wg.Wait()
		total := G * k
		want := int64((total + int(N) - 1) / int(N))
		if admitted != want {
			out.Violate("basic-concurrent-share", fmt.Sprintf("BasicSampler{N:%d}: %d goroutines x %d calls admitted %d, specified ceil(%d/%d)=%d", N, G, k, admitted, total, N, want),
				map[string]interface{}{"check": "c13-conc", "N": N, "G": G, "k": k})
		}
		out.Count("concurrent_sample_calls", int64(total))
		out.Case(rng.HashStr(fmt.Sprint(run, N, G, k)), G > 1)
	}
	// short histories checked with porcupine against the counter model
	hist := f.N(300, 5000)
	var clk int64
	for hi := 0; hi < hist; hi++ {
		if !f.Mine(hi) {
			continue
		}
		r := rng.New(f.Seed, 0xc13d, uint64(hi))
		N := uint32(2 + r.Intn(3))
		G := 2 + r.Intn(3)
		k := 1 + r.Intn(5)
		s := &zerolog.BasicSampler{N: N}
		ops := make([][]porcupine.Operation, G)
		var wg sync.WaitGroup
		start := make(chan struct{})
		for g := 0; g < G; g++ {
			wg.Add(1)
			go func(g int) {
				defer wg.Done()
				<-start
				for i := 0; i < k; i++ {
					c := atomic.AddInt64(&clk, 1)
					res := s.Sample(zerolog.InfoLevel)
					rt := atomic.AddInt64(&clk, 1)
					ops[g] = append(ops[g], porcupine.Operation{ClientId: g, Input: sampIn{}, Call: c, Output: res, Return: rt})
				}
			}(g)
		}
		close(start)
		wg.Wait()
		var all []porcupine.Operation
		for _, o := range ops {
			all = append(all, o...)
		}
		model := porcupine.Model{
			Init: func() interface{} { return uint32(0) },
			Step: func(st, in, outp interface{}) (bool, interface{}) {
				c := st.(uint32) + 1
				return outp.(bool) == (c%N == 1), c
			},
		}
		res := porcupine.CheckOperationsTimeout(model, all, 20*time.Second)
		switch res {
		case porcupine.Illegal:
			out.Violate("basic-linearizability", fmt.Sprintf("BasicSampler{N:%d}: history of %d concurrent Sample calls is not linearizable against the counter model", N, len(all)),
				map[string]interface{}{"check": "c13-conc", "N": N, "history": fmt.Sprint(all)})
		case porcupine.Unknown:
			out.Inconc(fmt.Sprintf("porcupine timeout on history %d", hi))
		default:
			out.Count("porcupine_ok", 1)
		}
		out.Case(rng.HashStr(fmt.Sprint("h", hi, all)), true)
		if hi == 0 {
			out.Sample(map[string]interface{}{"N": N, "history": fmt.Sprint(all)}, 3)
		}
	}
	out.Finish(f)
	return 0
}
