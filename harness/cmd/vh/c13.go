package main

import (
	"fmt"
	"sync"
	"sync/atomic"
	"time"

	"github.com/anishathalye/porcupine"
	"github.com/rs/zerolog"
	"github.com/rs/zerolog/diode/verifh/evid"
	"github.com/rs/zerolog/diode/verifh/rng"
)

func init() { commands["c13"] = c13; commands["c13-conc"] = c13conc }

// reference models -------------------------------------------------------------------------------------

type refSampler interface {
	sample(now int64, lvl zerolog.Level) bool
}

type refBasic struct {
	n uint32
	c uint64
}

func (s *refBasic) sample(int64, zerolog.Level) bool {
	if s.n == 0 {
		return false
	}
	if s.n == 1 {
		return true
	}
	s.c++
	return s.c%uint64(s.n) == 1
}

type refBurst struct {
	burst  uint32
	period int64
	next   refSampler
	count  uint64
	end    int64
	open   bool
}

func (s *refBurst) sample(now int64, lvl zerolog.Level) bool {
	if s.burst > 0 && s.period > 0 {
		if !s.open || now >= s.end {
			s.open = true
			s.end = now + s.period
			s.count = 1
		} else {
			s.count++
		}
		if s.count <= uint64(s.burst) {
			return true
		}
	}
	if s.next == nil {
		return false
	}
	return s.next.sample(now, lvl)
}

type refConst bool

func (c refConst) sample(int64, zerolog.Level) bool { return bool(c) }

type constSampler bool

func (c constSampler) Sample(zerolog.Level) bool { return bool(c) }

// mkNext builds the real NextSampler and its reference for variant v.
func mkNext(v int, P time.Duration) (zerolog.Sampler, refSampler, string) {
	switch v {
	case 1:
		return &zerolog.BasicSampler{N: 2}, &refBasic{n: 2}, "Basic{2}"
	case 2:
		return &zerolog.BurstSampler{Burst: 1, Period: P}, &refBurst{burst: 1, period: int64(P)}, "Burst{1,P}"
	case 3:
		return constSampler(true), refConst(true), "admit-all"
	case 4:
		return constSampler(false), refConst(false), "reject-all"
	}
	return nil, nil, "nil"
}

func c13(args []string) int {
	f := mustFlags(args)
	out := evid.New("C13")
	const P = 1000
	var clock int64
	oldTS := zerolog.TimestampFunc
	zerolog.TimestampFunc = func() time.Time { return time.Unix(0, clock) }
	defer func() { zerolog.TimestampFunc = oldTS }()
	alphabets := [][]int64{{1, 2, P - 1, P, P + 1, 2 * P, 3*P + 1}, {-2 * P, -P - 1, -P, -P + 1, -1, 0, 1, P}}
	maxLens := []int{6, 5}
	if f.Thorough() {
		maxLens = []int{8, 7}
	}
	var calls int64
	for ai, alphabet := range alphabets {
		maxLen := maxLens[ai]
		// 1. bounded-exhaustive Burst histories (second alphabet: readings before, at and around the Unix epoch)
		nseq := 1
		for i := 0; i < maxLen; i++ {
			nseq *= len(alphabet)
		}
		seq := make([]int64, maxLen)
		for si := 0; si < nseq; si++ {
			if !f.Mine(si) {
				continue
			}
			x := si
			for i := 0; i < maxLen; i++ {
				seq[i] = alphabet[x%len(alphabet)]
				x /= len(alphabet)
			}
			for burst := uint32(0); burst <= 3; burst++ {
				for _, period := range []time.Duration{0, P} {
					for nv := 0; nv <= 4; nv++ {
						next, rnext, nname := mkNext(nv, P)
						s := &zerolog.BurstSampler{Burst: burst, Period: period, NextSampler: next}
						ref := &refBurst{burst: burst, period: int64(period), next: rnext}
						for i := 0; i < maxLen; i++ {
							clock = seq[i]
							got := s.Sample(zerolog.InfoLevel)
							want := ref.sample(clock, zerolog.InfoLevel)
							calls++
							if got != want {
								out.Violate("burst-model", fmt.Sprintf("BurstSampler{Burst:%d Period:%d Next:%s} clock readings %v: call %d returned %v, specified %v", burst, period, nname, seq[:i+1], i, got, want),
									map[string]interface{}{"check": "c13", "burst": burst, "period": int64(period), "next": nname, "clock": append([]int64(nil), seq[:i+1]...)})
								break
							}
						}
						out.Case(uint64(ai)<<60|uint64(si)*64+uint64(burst)*16+uint64(nv)*2+uint64(period/P), burst > 0 && period > 0)
					}
				}
			}
		}
	}
	out.Count("burst_exhaustive_histories", int64(out.Evaluations))
	out.Count("sample_calls", calls)
	// 2. random long histories with non-monotonic clocks, random parameters
	nr := f.N(20000, 1000000)
	for i := 0; i < nr; i++ {
		if !f.Mine(i) {
			continue
		}
		r := rng.New(f.Seed, 0xc13, uint64(i))
		burst := uint32(r.Intn(6))
		// every eighth history: a budget around 2^31 and 2^32 ("unlimited within the period"); the counter comparison
		// must not depend on the sign bit of a 32-bit difference (round 15)
		if rb := rng.New(f.Seed, 0xc13b, uint64(i)); rb.Chance(1, 8) {
			burst = []uint32{1<<31 - 1, 1 << 31, 1<<31 + 1, 1<<31 + 2, 3 << 30, 1<<32 - 2, 1<<32 - 1}[rb.Intn(7)]
			out.Count("random_histories_with_burst_at_or_above_2^31-1", 1)
		}
		period := time.Duration([]int64{0, 1, 7, 1000, 1 << 40}[r.Intn(5)])
		nv := r.Intn(5)
		next, rnext, nname := mkNext(nv, period+1)
		s := &zerolog.BurstSampler{Burst: burst, Period: period, NextSampler: next}
		ref := &refBurst{burst: burst, period: int64(period), next: rnext}
		var hist []int64
		now := int64(1 + r.Intn(1000))
		lo := int64(1)
		if r.Chance(1, 4) {
			lo = -1 << 50 // this history may run before the Unix epoch
			now = -int64(r.Intn(5000))
		}
		// in a third of the histories the program installs another clock function half-way (TimestampFunc is a variable:
		// the sampler reads the clock in force at each event)
		baseTS := zerolog.TimestampFunc
		replaceAt, shift := -1, int64(0)
		if r.Chance(1, 3) {
			replaceAt = 1 + r.Intn(150)
			shift = []int64{int64(period), 3*int64(period) + 1, -int64(period), 1000, 1 << 41}[r.Intn(5)]
		}
		for j := 0; j < 200; j++ {
			if j == replaceAt {
				sh := shift
				zerolog.TimestampFunc = func() time.Time { return time.Unix(0, clock+sh) }
				out.Count("burst_histories_with_replaced_clock_function", 1)
			}
			switch r.Intn(5) {
			case 0:
				now -= int64(r.Intn(2000)) // back-step
				if now < lo {
					now = lo
				}
			case 1:
				now += int64(period)
			case 2:
				now += int64(period) - 1 + int64(r.Intn(3))
			default:
				now += int64(r.Intn(5))
			}
			if now < lo {
				now = lo
			}
			clock = now
			seen := now // what the clock function in force returns
			if replaceAt >= 0 && j >= replaceAt {
				seen = now + shift
			}
			hist = append(hist, seen)
			got, want := s.Sample(zerolog.DebugLevel), ref.sample(seen, zerolog.DebugLevel)
			if got != want {
				out.Violate("burst-model", fmt.Sprintf("BurstSampler{Burst:%d Period:%d Next:%s} after %d calls returned %v, specified %v (clock tail %v)", burst, period, nname, j+1, got, want, hist[max0(len(hist)-8):]),
					map[string]interface{}{"check": "c13", "burst": burst, "period": int64(period), "next": nname, "clock": hist})
				break
			}
		}
		zerolog.TimestampFunc = baseTS
		out.Case(rng.HashStr(fmt.Sprint("r", i, burst, period, nv)), true)
		out.Count("burst_random_histories", 1)
	}
	if f.Shard == 0 {
		c13Basic(out)
		c13Level(out)
		c13Logger(out, f, &clock)
		out.Sample(map[string]interface{}{"sampler": "BurstSampler{Burst:2 Period:1000 Next:Basic{2}}", "clock_readings": []int64{1, 2, 999, 1000, 1001, 2000}, "note": "returns compared call by call with the reference model"}, 5)
	}
	out.Extra["burst_history_length"] = maxLens
	out.Exhaustive = false
	out.Finish(f)
	return 0
}

func max0(x int) int {
	if x < 0 {
		return 0
	}
	return x
}

func c13Basic(out *evid.Out) {
	for n := uint32(0); n <= 40; n++ {
		s := &zerolog.BasicSampler{N: n}
		admitted := 0
		for k := 1; k <= 500; k++ {
			got := s.Sample(zerolog.InfoLevel)
			if got {
				admitted++
			}
			want := 0
			if n == 1 {
				want = k
			} else if n > 1 {
				want = (k + int(n) - 1) / int(n)
			}
			if admitted != want || (k == 1 && n >= 1 && !got) {
				out.Violate("basic-share", fmt.Sprintf("BasicSampler{N:%d}: after %d calls admitted %d, specified ceil(k/N)=%d", n, k, admitted, want),
					map[string]interface{}{"check": "c13", "N": n, "k": k})
				break
			}
		}
		out.Case(rng.HashStr(fmt.Sprint("basic", n)), true)
		out.Count("basic_sequential_parameters", 1)
	}
}

func c13Level(out *evid.Out) {
	mk := func(id int, log *[]int) zerolog.Sampler { return recSampler{id, log, id%2 == 0} }
	for mask := 0; mask < 32; mask++ {
		var log []int
		var ls zerolog.LevelSampler
		if mask&1 != 0 {
			ls.TraceSampler = mk(-1, &log)
		}
		if mask&2 != 0 {
			ls.DebugSampler = mk(0, &log)
		}
		if mask&4 != 0 {
			ls.InfoSampler = mk(1, &log)
		}
		if mask&8 != 0 {
			ls.WarnSampler = mk(2, &log)
		}
		if mask&16 != 0 {
			ls.ErrorSampler = mk(3, &log)
		}
		for lv := -128; lv <= 127; lv++ {
			log = log[:0]
			got := ls.Sample(zerolog.Level(lv))
			configured := lv >= -1 && lv <= 3 && mask&(1<<uint(lv+1)) != 0
			want := true
			wantLog := 0
			if configured {
				want = lv%2 == 0
				wantLog = 1
			}
			if got != want || len(log) != wantLog || (wantLog == 1 && log[0] != lv) {
				out.Violate("level-sampler", fmt.Sprintf("LevelSampler(mask %05b).Sample(%d) = %v consulted %v; specified %v, consult only the sampler of that level", mask, lv, got, log, want),
					map[string]interface{}{"check": "c13", "mask": mask, "level": lv})
			}
			out.Count("level_sampler_cases", 1)
		}
		out.Case(rng.HashStr(fmt.Sprint("level", mask)), true)
	}
}

type recSampler struct {
	id    int
	log   *[]int
	admit bool
}

func (r recSampler) Sample(zerolog.Level) bool { *r.log = append(*r.log, r.id); return r.admit }

// ---- compositions behind a Logger ----------------------------------------------------------------------

// refLevel is the reference LevelSampler: only the sampler configured for the event's level is consulted.
type refLevel struct{ by map[zerolog.Level]refSampler }

func (s refLevel) sample(now int64, lvl zerolog.Level) bool {
	if x := s.by[lvl]; x != nil {
		return x.sample(now, lvl)
	}
	return true
}

// a recorder notes that it was consulted and with which level (real and reference side write to their own log)
type consult struct {
	id  int
	lvl zerolog.Level
}

type recS struct {
	id    int
	admit bool
	log   *[]consult
}

func (r recS) Sample(l zerolog.Level) bool { *r.log = append(*r.log, consult{r.id, l}); return r.admit }

type refRec struct {
	id    int
	admit bool
	log   *[]consult
}

func (r refRec) sample(_ int64, l zerolog.Level) bool {
	*r.log = append(*r.log, consult{r.id, l})
	return r.admit
}

// genSampler draws a sampler composition of the given depth and its reference twin.
func genSampler(r *rng.R, depth int, P time.Duration, nextID *int, realLog, refLog *[]consult) (zerolog.Sampler, refSampler, string) {
	k := r.Intn(5)
	if depth == 0 && (k == 2 || k == 3) {
		k = r.Intn(2)
	}
	switch k {
	case 0:
		n := uint32(r.Intn(4))
		return &zerolog.BasicSampler{N: n}, &refBasic{n: n}, fmt.Sprintf("Basic{%d}", n)
	case 1:
		*nextID++
		id, admit := *nextID, r.Bool()
		return recS{id, admit, realLog}, refRec{id, admit, refLog}, fmt.Sprintf("rec%d(%v)", id, admit)
	case 2:
		burst := uint32(r.Intn(3))
		per := []time.Duration{0, P, P}[r.Intn(3)]
		var nx zerolog.Sampler
		var rn refSampler
		nn := "nil"
		if !r.Chance(1, 5) {
			nx, rn, nn = genSampler(r, depth-1, P, nextID, realLog, refLog)
		}
		return &zerolog.BurstSampler{Burst: burst, Period: per, NextSampler: nx}, &refBurst{burst: burst, period: int64(per), next: rn}, fmt.Sprintf("Burst{%d,%d,%s}", burst, per, nn)
	case 3:
		var ls zerolog.LevelSampler
		rl := refLevel{by: map[zerolog.Level]refSampler{}}
		desc := "Level{"
		for lv := zerolog.TraceLevel; lv <= zerolog.ErrorLevel; lv++ {
			if !r.Bool() {
				continue
			}
			sm, rf, d := genSampler(r, depth-1, P, nextID, realLog, refLog)
			rl.by[lv] = rf
			desc += fmt.Sprintf("%d:%s ", lv, d)
			switch lv {
			case zerolog.TraceLevel:
				ls.TraceSampler = sm
			case zerolog.DebugLevel:
				ls.DebugSampler = sm
			case zerolog.InfoLevel:
				ls.InfoSampler = sm
			case zerolog.WarnLevel:
				ls.WarnSampler = sm
			case zerolog.ErrorLevel:
				ls.ErrorSampler = sm
			}
		}
		return ls, rl, desc + "}"
	}
	n := uint32(2 + r.Intn(3))
	return &zerolog.BasicSampler{N: n}, &refBasic{n: n}, fmt.Sprintf("Basic{%d}", n)
}

// c13Logger: sampler compositions behind a Logger. Only events that pass the level gate reach the sampler, with
// the EVENT's level; the composition consults exactly the samplers the model consults, with that level; the
// writer sees exactly the admitted events; children derived from the sampled logger share its sampler (one
// budget); Sample(nil) removes it; DisableSampling(true) admits everything (only at the end of a history, so that
// nothing later depends on whether a disabled sampler was still consulted).
func c13Logger(out *evid.Out, f *evid.Flags, clock *int64) {
	runs := f.N(3000, 100000)
	for run := 0; run < runs; run++ {
		r := rng.New(f.Seed, 0xc13b, uint64(run))
		w := &cntW{}
		P := time.Duration(50)
		var realLog, refLog []consult
		nid := 0
		sm, ref, desc := genSampler(r, 1+r.Intn(3), P, &nid, &realLog, &refLog)
		lg := zerolog.Level(r.Intn(4) - 1)
		gl := zerolog.Level(r.Intn(4) - 1)
		zerolog.SetGlobalLevel(gl)
		// a quarter of the runs attach their samplers while sampling is globally disabled: the switch acts when an event is
		// logged, not when a logger is derived
		if run%4 == 1 {
			zerolog.DisableSampling(true)
			out.Count("loggers_derived_while_sampling_disabled", 1)
		}
		l := zerolog.New(w).Level(lg).Sample(sm)
		child := l.With().Str("c", "d").Logger() // shares the sampler
		child2 := l.Output(w).Level(lg)          // still the same sampler
		unsampled := l.Sample(nil)               // sampler removed
		zerolog.DisableSampling(false)
		now := int64(1)
		nev := 60 + r.Intn(100)
		disableFrom := nev
		if r.Chance(1, 3) {
			disableFrom = nev - 1 - r.Intn(10)
		}
		for i := 0; i < nev; i++ {
			now += int64(r.Intn(30))
			*clock = now
			disable := i >= disableFrom
			zerolog.DisableSampling(disable)
			realLog, refLog = realLog[:0], refLog[:0]
			w.n = 0
			who := r.Intn(10)
			lgr := &l
			switch who {
			case 0, 1:
				lgr = &child
			case 2:
				lgr = &child2
			case 3:
				lgr = &unsampled
			}
			var ev zerolog.Level
			entry := r.Intn(12)
			switch entry {
			case 0:
				ev = zerolog.TraceLevel
				lgr.Trace().Msg("m")
			case 1:
				ev = zerolog.DebugLevel
				lgr.Debug().Msg("m")
			case 2:
				ev = zerolog.InfoLevel
				lgr.Info().Msg("m")
			case 3:
				ev = zerolog.WarnLevel
				lgr.Warn().Send()
			case 4:
				ev = zerolog.ErrorLevel
				lgr.Error().Msgf("%d", 1)
			case 5:
				ev = zerolog.NoLevel
				lgr.Log().Msg("m")
			case 6:
				ev = zerolog.DebugLevel
				lgr.Print("m")
			case 7:
				ev = zerolog.NoLevel
				lgr.Write([]byte("m\n"))
			case 8:
				ev = zerolog.ErrorLevel
				lgr.Err(errTest).Msg("m")
			case 9:
				// Logger.Panic(): sampled like any other event; the call panics with the message whether or not the line is written
				ev = zerolog.PanicLevel
				func() {
					defer func() {
						// an event that is not written panics at once, with the empty message
						if x := recover(); x != "m" && x != "" {
							out.Violate("panic-entry", fmt.Sprintf("Logger.Panic().Msg(\"m\") ended with recover() = %v", x), map[string]interface{}{"check": "c13", "run": run})
						}
					}()
					lgr.Panic().Msg("m")
				}()
			default:
				ev = zerolog.Level(r.Intn(9) - 2) // -2 .. 6: below Trace, every named level up to NoLevel (WithLevel neither panics nor exits)
				lgr.WithLevel(ev).Msg("m")
			}
			want := false
			gated := !(ev >= lg && ev >= gl)
			if !gated {
				switch {
				case disable, who == 3:
					want = true
				default:
					want = ref.sample(now, ev)
				}
			}
			ctx := func() string {
				return fmt.Sprintf("logger(level %d, global %d).Sample(%s), event %d of level %d via entry %d on logger %d, DisableSampling=%v", lg, gl, desc, i, ev, entry, who, disable)
			}
			if (w.n == 1) != want {
				out.Violate("logger-sampling", fmt.Sprintf("%s: written=%v specified=%v", ctx(), w.n == 1, want), map[string]interface{}{"check": "c13", "run": run})
				break
			}
			if (gated || who == 3 || disable) && len(realLog) != 0 && !disable {
				out.Violate("logger-sampling-budget", fmt.Sprintf("%s: the sampler was consulted (%v) for an event that the level gate rejected or on a logger without sampler", ctx(), realLog), map[string]interface{}{"check": "c13", "run": run})
				break
			}
			if !disable && fmt.Sprint(realLog) != fmt.Sprint(refLog) {
				out.Violate("sampler-consultation", fmt.Sprintf("%s: samplers consulted as (id, level) %v, specified %v", ctx(), realLog, refLog), map[string]interface{}{"check": "c13", "run": run})
				break
			}
			out.Count("logger_sampling_events", 1)
			if len(refLog) > 0 {
				out.Count("logger_sampling_events_with_level_observed", 1)
			}
		}
		zerolog.DisableSampling(false)
		out.Case(rng.HashStr(fmt.Sprint("logger", run, desc)), true)
		out.Count("logger_compositions", 1)
	}
	zerolog.SetGlobalLevel(zerolog.TraceLevel)
}

var errTest = fmt.Errorf("e")

// ---- concurrent BasicSampler ---------------------------------------------------------------------------

type sampIn struct{}

func c13conc(args []string) int {
	f := mustFlags(args)
	out := evid.New("C13")
	out.Sub = "concurrent"
	runs := f.N(200, 3000)
	for run := 0; run < runs; run++ {
		if !f.Mine(run) {
			continue
		}
		r := rng.New(f.Seed, 0xc13c, uint64(run))
		N := uint32(2 + r.Intn(6))
		G := 2 + r.Intn(15)
		k := 1 + r.Intn(300)
		s := &zerolog.BasicSampler{N: N}
		var admitted int64
		var wg sync.WaitGroup
		start := make(chan struct{})
		for g := 0; g < G; g++ {
			wg.Add(1)
			go func() {
				defer wg.Done()
				<-start
				for i := 0; i < k; i++ {
					if s.Sample(zerolog.InfoLevel) {
						atomic.AddInt64(&admitted, 1)
					}
				}
			}()
		}
		close(start)
		wg.Wait()
		total := G * k
		want := int64((total + int(N) - 1) / int(N))
		if admitted != want {
			out.Violate("basic-concurrent-share", fmt.Sprintf("BasicSampler{N:%d}: %d goroutines x %d calls admitted %d, specified ceil(%d/%d)=%d", N, G, k, admitted, total, N, want),
				map[string]interface{}{"check": "c13-conc", "N": N, "G": G, "k": k})
		}
		out.Count("concurrent_sample_calls", int64(total))
		out.Case(rng.HashStr(fmt.Sprint(run, N, G, k)), G > 1)
	}
	// short histories checked with porcupine against the counter model
	hist := f.N(300, 5000)
	var clk int64
	for hi := 0; hi < hist; hi++ {
		if !f.Mine(hi) {
			continue
		}
		r := rng.New(f.Seed, 0xc13d, uint64(hi))
		N := uint32(2 + r.Intn(3))
		G := 2 + r.Intn(3)
		k := 1 + r.Intn(5)
		s := &zerolog.BasicSampler{N: N}
		ops := make([][]porcupine.Operation, G)
		var wg sync.WaitGroup
		start := make(chan struct{})
		for g := 0; g < G; g++ {
			wg.Add(1)
			go func(g int) {
				defer wg.Done()
				<-start
				for i := 0; i < k; i++ {
					c := atomic.AddInt64(&clk, 1)
					res := s.Sample(zerolog.InfoLevel)
					rt := atomic.AddInt64(&clk, 1)
					ops[g] = append(ops[g], porcupine.Operation{ClientId: g, Input: sampIn{}, Call: c, Output: res, Return: rt})
				}
			}(g)
		}
		close(start)
		wg.Wait()
		var all []porcupine.Operation
		for _, o := range ops {
			all = append(all, o...)
		}
		model := porcupine.Model{
			Init: func() interface{} { return uint32(0) },
			Step: func(st, in, outp interface{}) (bool, interface{}) {
				c := st.(uint32) + 1
				return outp.(bool) == (c%N == 1), c
			},
		}
		res := porcupine.CheckOperationsTimeout(model, all, 20*time.Second)
		switch res {
		case porcupine.Illegal:
			out.Violate("basic-linearizability", fmt.Sprintf("BasicSampler{N:%d}: history of %d concurrent Sample calls is not linearizable against the counter model", N, len(all)),
				map[string]interface{}{"check": "c13-conc", "N": N, "history": fmt.Sprint(all)})
		case porcupine.Unknown:
			out.Inconc(fmt.Sprintf("porcupine timeout on history %d", hi))
		default:
			out.Count("porcupine_ok", 1)
		}
		out.Case(rng.HashStr(fmt.Sprint("h", hi, all)), true)
		if hi == 0 {
			out.Sample(map[string]interface{}{"N": N, "history": fmt.Sprint(all)}, 3)
		}
	}
	out.Finish(f)
	return 0
}
