package main

import (
	"context"
	"errors"
	"fmt"
	"io"
	"net"
	"os"
	"os/exec"
	"reflect"
	"strings"
	"time"

	"github.com/rs/zerolog"
	"github.com/rs/zerolog/diode/verifh/evid"
)

func init() {
	commands["c04"] = c04
	commands["c04-fatal-child"] = c04FatalChild
}

type cntW struct {
	n     int
	last  zerolog.Level
	plain int
}

func (w *cntW) Write(p []byte) (int, error) { w.plain++; return len(p), nil }
func (w *cntW) WriteLevel(l zerolog.Level, p []byte) (int, error) {
	w.n++
	w.last = l
	return len(p), nil
}

type cntSampler struct {
	n     int
	admit bool
	last  zerolog.Level
}

func (s *cntSampler) Sample(l zerolog.Level) bool { s.n++; s.last = l; return s.admit }

// cntHook / cntFunc count hook runs and Func callbacks on the grid loggers: both happen exactly for written events
type cntHook struct{ n *int }

func (h cntHook) Run(*zerolog.Event, zerolog.Level, string) { *h.n++ }

func should(ev, lg, gl int) bool { return ev != 7 && ev >= lg && ev >= gl }

func c04(args []string) int {
	f := mustFlags(args)
	out := evid.New("C04")
	defer zerolog.SetGlobalLevel(zerolog.TraceLevel)
	w := &cntW{}
	var triples, named int64
	viol := func(sig, desc string, m map[string]interface{}) {
		if m == nil {
			m = map[string]interface{}{}
		}
		m["check"] = "c04"
		out.Violate(sig, desc, m)
	}
	// 1. exhaustive level triples; logger levels are sharded
	for lg := -128; lg <= 127; lg++ {
		if (lg+128)%f.NShards != f.Shard {
			continue
		}
		base := zerolog.New(w).Level(zerolog.Level(lg))
		sAdmit, sReject := &cntSampler{admit: true}, &cntSampler{}
		la, lr := base.Sample(sAdmit), base.Sample(sReject)
		if lg%2 == 0 {
			// the sampler travels with the logger through further derivation steps (Output, With, Level, Hook)
			la, lr = la.Output(w).With().Logger(), lr.Output(w).Level(zerolog.Level(lg)).Hook()
		}
		var hookRuns, funcRuns int
		lh := base.Hook(cntHook{&hookRuns})
		cntFunc := func(e *zerolog.Event) { funcRuns++ }
		var carried *zerolog.Logger // derived while the previous global level was in force
		for gl := -128; gl <= 127; gl++ {
			zerolog.SetGlobalLevel(zerolog.Level(gl))
			// the global level counts when an event is logged, not when its logger was derived: a logger derived under
			// another global level (lower, and - at the wrap-around of this loop - higher) gates like any other
			if carried != nil {
				if got := carried.GetLevel(); got != zerolog.Level(lg) {
					viol("gate-getlevel", fmt.Sprintf("Level(%d).GetLevel() = %d for a logger derived while the global level was %d", lg, got, gl-1), nil)
				}
				for _, ev := range []int{lg - 1, lg, lg + 1, gl - 1, gl, gl + 1, 127, -128} {
					if ev < -128 || ev > 127 {
						continue
					}
					named++
					w.n = 0
					carried.WithLevel(zerolog.Level(ev)).Msg("m")
					if want := should(ev, lg, gl); (w.n == 1) != want {
						viol("gate-derived-under-other-global", fmt.Sprintf("logger level %d (logger derived under global level %d), global level now %d, WithLevel(%d): writes=%d, expected written=%v", lg, gl-1, gl, ev, w.n, want), nil)
					}
				}
			}
			{
				c := zerolog.New(w).Level(zerolog.Level(lg))
				carried = &c
			}
			if gl == 127 {
				// derived under the highest global level, used under the lowest
				zerolog.SetGlobalLevel(-128)
				for _, ev := range []int{lg - 1, lg, lg + 1, 0} {
					if ev < -128 || ev > 127 {
						continue
					}
					named++
					w.n = 0
					carried.WithLevel(zerolog.Level(ev)).Msg("m")
					if want := should(ev, lg, -128); (w.n == 1) != want {
						viol("gate-derived-under-other-global", fmt.Sprintf("logger level %d (logger derived under global level 127), global level now -128, WithLevel(%d): writes=%d, expected written=%v", lg, ev, w.n, want), nil)
					}
				}
				zerolog.SetGlobalLevel(zerolog.Level(gl))
			}
			for ev := -128; ev <= 127; ev++ {
				triples++
				want := should(ev, lg, gl)
				w.n = 0
				base.WithLevel(zerolog.Level(ev)).Msg("m")
				if (w.n == 1) != want || w.n > 1 || (want && w.last != zerolog.Level(ev)) || w.plain != 0 {
					viol("gate", fmt.Sprintf("logger level %d, global level %d, WithLevel(%d): writes=%d (level passed %d), expected written=%v", lg, gl, ev, w.n, w.last, want),
						map[string]interface{}{"logger": lg, "global": gl, "event": ev})
				}
				// sampler consulted iff the level gate passes; an admit-all sampler changes nothing,
				// a reject-all sampler suppresses the write
				w.n, sAdmit.n, sReject.n = 0, 0, 0
				la.WithLevel(zerolog.Level(ev)).Msg("m")
				na := w.n
				w.n = 0
				lr.WithLevel(zerolog.Level(ev)).Msg("m")
				nr := w.n
				wantS := 0
				if want {
					wantS = 1
				}
				if want && (sAdmit.last != zerolog.Level(ev) || sReject.last != zerolog.Level(ev)) {
					viol("gate-sampler-level", fmt.Sprintf("logger %d global %d event %d: the sampler was handed level %d / %d", lg, gl, ev, sAdmit.last, sReject.last),
						map[string]interface{}{"logger": lg, "global": gl, "event": ev})
				}
				// hooks and Func callbacks run exactly for the events that are written
				w.n, hookRuns, funcRuns = 0, 0, 0
				lh.WithLevel(zerolog.Level(ev)).Func(cntFunc).Msg("m")
				if hookRuns != wantS || funcRuns != wantS || w.n != wantS {
					viol("gate-hooks", fmt.Sprintf("logger %d global %d event %d: %d hook run(s), %d Func callback(s), %d write(s); expected %d of each", lg, gl, ev, hookRuns, funcRuns, w.n, wantS),
						map[string]interface{}{"logger": lg, "global": gl, "event": ev})
				}
				if sAdmit.n != wantS || sReject.n != wantS || (na == 1) != want || nr != 0 {
					viol("gate-sampler", fmt.Sprintf("logger %d global %d event %d: sampler consulted %d/%d times (expected %d), writes admit=%d reject=%d", lg, gl, ev, sAdmit.n, sReject.n, wantS, na, nr),
						map[string]interface{}{"logger": lg, "global": gl, "event": ev})
				}
			}
			// named methods
			type nm struct {
				name string
				lvl  int
				f    func(l *zerolog.Logger) *zerolog.Event
			}
			for _, m := range []nm{
				{"Trace", -1, (*zerolog.Logger).Trace}, {"Debug", 0, (*zerolog.Logger).Debug}, {"Info", 1, (*zerolog.Logger).Info},
				{"Warn", 2, (*zerolog.Logger).Warn}, {"Error", 3, (*zerolog.Logger).Error}, {"Log", 6, (*zerolog.Logger).Log},
				{"Err(nil)", 1, func(l *zerolog.Logger) *zerolog.Event { return l.Err(nil) }},
				{"Err(e)", 3, func(l *zerolog.Logger) *zerolog.Event { return l.Err(errors.New("x")) }},
			} {
				named++
				want := should(m.lvl, lg, gl)
				w.n = 0
				e := m.f(&base)
				en := e.Enabled()
				e.Msg("m")
				if (w.n == 1) != want || en != want || (want && w.last != zerolog.Level(m.lvl)) {
					viol("gate-named", fmt.Sprintf("logger %d global %d %s: writes=%d enabled=%v level passed=%d expected written=%v", lg, gl, m.name, w.n, en, w.last, want), nil)
				}
			}
			// Panic(): always panics; written iff the gate (and the sampler) lets level 5 pass; finalizers rotate
			for pi, pl := range []*zerolog.Logger{&base, &lr} {
				named++
				w.n = 0
				panicked := false
				func() {
					defer func() { panicked = recover() != nil }()
					e := pl.Panic()
					switch (lg + gl + 256) % 4 {
					case 0:
						e.Msg("m")
					case 1:
						e.Send()
					case 2:
						e.Msgf("%d", 1)
					default:
						e.MsgFunc(func() string { return "m" })
					}
				}()
				want := should(5, lg, gl) && pi == 0
				if !panicked || (w.n == 1) != want || w.n > 1 || (want && w.last != zerolog.PanicLevel) {
					viol("gate-panic", fmt.Sprintf("logger %d global %d Panic() (reject-all sampler=%v): panicked=%v writes=%d level passed=%d; expected a panic and written=%v", lg, gl, pi == 1, panicked, w.n, w.last, want), nil)
				}
			}
			// the level also arrives when the destination sits behind the package's own wrappers
			for wi, wl := range []zerolog.Logger{zerolog.New(zerolog.SyncWriter(w)).Level(zerolog.Level(lg)), zerolog.New(zerolog.MultiLevelWriter(w)).Level(zerolog.Level(lg)),
				zerolog.New(zerolog.SyncWriter(zerolog.MultiLevelWriter(w))).Level(zerolog.Level(lg))} {
				for _, ev := range []int{-1, 0, 3, 5, 42, -7} {
					named++
					w.n, w.plain = 0, 0
					wl.WithLevel(zerolog.Level(ev)).Msg("m")
					want := should(ev, lg, gl)
					if (w.n == 1) != want || w.plain != 0 || (want && w.last != zerolog.Level(ev)) {
						viol("gate-wrapped-writer", fmt.Sprintf("logger %d global %d WithLevel(%d) through writer wrapping %d (0 SyncWriter, 1 MultiLevelWriter, 2 both): WriteLevel calls=%d plain Write calls=%d level passed=%d, expected written=%v", lg, gl, ev, wi, w.n, w.plain, w.last, want), nil)
					}
				}
			}
			w.plain = 0
			// Logger.Write is an event without level
			{
				named++
				w.n = 0
				base.Write([]byte("m"))
				want := should(6, lg, gl)
				if (w.n == 1) != want || (want && w.last != zerolog.NoLevel) {
					viol("gate-write", fmt.Sprintf("logger %d global %d Logger.Write: writes=%d level passed=%d expected written=%v", lg, gl, w.n, w.last, want), nil)
				}
			}
			// Print family is Debug level
			for _, pf := range []func(){func() { base.Print("x") }, func() { base.Printf("%s", "x") }, func() { base.Println("x") }} {
				named++
				w.n = 0
				pf()
				if w.n == 1 && w.last != zerolog.DebugLevel {
					viol("gate-print", fmt.Sprintf("logger %d global %d Print*: level passed to WriteLevel is %d", lg, gl, w.last), nil)
				}
				if (w.n == 1) != should(0, lg, gl) {
					viol("gate-print", fmt.Sprintf("logger %d global %d Print*: writes=%d expected %v", lg, gl, w.n, should(0, lg, gl)), nil)
				}
			}
			// DisableSampling(true) admits everything that passes the level gate
			zerolog.DisableSampling(true)
			w.n = 0
			lr.WithLevel(zerolog.InfoLevel).Msg("m")
			zerolog.DisableSampling(false)
			if (w.n == 1) != should(1, lg, gl) {
				viol("gate-disable-sampling", fmt.Sprintf("logger %d global %d: DisableSampling(true) with a reject-all sampler: writes=%d expected %v", lg, gl, w.n, should(1, lg, gl)), nil)
			}
		}
	}
	zerolog.SetGlobalLevel(zerolog.TraceLevel)
	out.Count("level_triples", triples)
	out.Count("named_method_cases", named)
	if f.Shard == 0 {
		c04RoundTrip(out, viol)
		c04Inert(out, viol)
		c04PanicFatal(out, viol)
	}
	out.Evaluations = triples + named + out.Counters["roundtrip_cases"] + out.Counters["inert_method_calls"] + out.Counters["panic_fatal_cases"]
	// each triple / method is a distinct case by construction
	out.Extra["sum_distinct_cases"] = out.Evaluations
	out.Exhaustive = true
	out.Sample(map[string]interface{}{"logger_level": -3, "global_level": 2, "event_level": 5, "expected_written": should(5, -3, 2)}, 10)
	out.Finish(f)
	return 0
}

func c04RoundTrip(out *evid.Out, viol func(string, string, map[string]interface{})) {
	n := c04RoundTripDefault(out, viol)
	// the text forms are configurable (Level*Value, LevelFieldMarshalFunc): they must round-trip under
	// every configuration, not only the default lower-case names
	oldF := zerolog.LevelFieldMarshalFunc
	oldVals := []string{zerolog.LevelTraceValue, zerolog.LevelDebugValue, zerolog.LevelInfoValue, zerolog.LevelWarnValue, zerolog.LevelErrorValue, zerolog.LevelFatalValue, zerolog.LevelPanicValue}
	restore := func() {
		zerolog.LevelFieldMarshalFunc = oldF
		zerolog.LevelTraceValue, zerolog.LevelDebugValue, zerolog.LevelInfoValue, zerolog.LevelWarnValue = oldVals[0], oldVals[1], oldVals[2], oldVals[3]
		zerolog.LevelErrorValue, zerolog.LevelFatalValue, zerolog.LevelPanicValue = oldVals[4], oldVals[5], oldVals[6]
	}
	configs := []struct {
		name string
		set  func()
	}{
		{"upper-casing LevelFieldMarshalFunc", func() {
			zerolog.LevelFieldMarshalFunc = func(l zerolog.Level) string { return strings.ToUpper(l.String()) }
		}},
		{"custom Level*Value names", func() {
			zerolog.LevelTraceValue, zerolog.LevelDebugValue, zerolog.LevelInfoValue, zerolog.LevelWarnValue = "TRC", "Dbg", "information", "WARNING"
			zerolog.LevelErrorValue, zerolog.LevelFatalValue, zerolog.LevelPanicValue = "Err", "FATAL", "pnc"
		}},
		{"prefixing LevelFieldMarshalFunc", func() { zerolog.LevelFieldMarshalFunc = func(l zerolog.Level) string { return "L:" + l.String() } }},
	}
	for _, c := range configs {
		c.set()
		for i := -1; i <= 7; i++ {
			l := zerolog.Level(i)
			b, err := l.MarshalText()
			var back zerolog.Level = 99
			err2 := back.UnmarshalText(b)
			got, err3 := zerolog.ParseLevel(zerolog.LevelFieldMarshalFunc(l))
			n++
			if err != nil || err2 != nil || back != l || err3 != nil || got != l {
				viol("roundtrip-custom-names", fmt.Sprintf("%s: Level(%d) text %q -> UnmarshalText = %d (%v), ParseLevel = %d (%v)", c.name, i, b, back, err2, got, err3), nil)
			}
		}
		restore()
	}
	out.Count("roundtrip_cases", n)
}

func c04RoundTripDefault(out *evid.Out, viol func(string, string, map[string]interface{})) int64 {
	n := int64(0)
	for i := -128; i <= 127; i++ {
		l := zerolog.Level(i)
		forms := []string{l.String(), strings.ToUpper(l.String())}
		if len(l.String()) > 1 {
			forms = append(forms, strings.ToUpper(l.String()[:1])+l.String()[1:])
		}
		for _, s := range forms {
			n++
			got, err := zerolog.ParseLevel(s)
			if err != nil || got != l {
				viol("roundtrip-parse", fmt.Sprintf("Level(%d).String()=%q -> ParseLevel = %d, %v", i, s, got, err), nil)
			}
		}
		b, err := l.MarshalText()
		var back zerolog.Level = 99
		err2 := back.UnmarshalText(b)
		n++
		if err != nil || err2 != nil || back != l {
			viol("roundtrip-text", fmt.Sprintf("Level(%d).MarshalText()=%q -> UnmarshalText = %d (%v, %v)", i, b, back, err, err2), nil)
		}
	}
	// out-of-range / garbage must be errors, not wrap-around
	for _, s := range []string{"128", "-129", "1000", "bogus", "inf", " info", "0x1"} {
		n++
		if lv, err := zerolog.ParseLevel(s); err == nil {
			viol("roundtrip-reject", fmt.Sprintf("ParseLevel(%q) = %d without error", s, lv), nil)
		}
	}
	// WithLevel(Disabled) never written, whatever the thresholds
	w := &cntW{}
	l := zerolog.New(w).Level(-128)
	zerolog.SetGlobalLevel(-128)
	l.WithLevel(zerolog.Disabled).Str("a", "b").Msg("x")
	zerolog.SetGlobalLevel(zerolog.TraceLevel)
	n++
	if w.n != 0 {
		viol("disabled-written", "WithLevel(Disabled) was written", nil)
	}
	return n
}

// ---- inertness by reflection ------------------------------------------------------------------------

type touch struct{ n *int }

type recObj struct{ t touch }

func (r recObj) MarshalZerologObject(e *zerolog.Event)           { *r.t.n++ }
func (r recObj) MarshalZerologArray(a *zerolog.Array)            { *r.t.n++ }
func (r recObj) String() string                                  { *r.t.n++; return "s" }
func (r recObj) Error() string                                   { *r.t.n++; return "e" }
func (r recObj) MarshalJSON() ([]byte, error)                    { *r.t.n++; return []byte("1"), nil }
func (r recObj) Run(e *zerolog.Event, l zerolog.Level, m string) { *r.t.n++ }
func (r recObj) Write(p []byte) (int, error)                     { *r.t.n++; return len(p), nil }
func (r recObj) WriteLevel(l zerolog.Level, p []byte) (int, error) {
	*r.t.n++
	return len(p), nil
}
func (r recObj) Sample(zerolog.Level) bool { return false }

var (
	tEvent = reflect.TypeOf((*zerolog.Event)(nil))
	tCtx   = reflect.TypeOf((*context.Context)(nil)).Elem()
	tErr   = reflect.TypeOf((*error)(nil)).Elem()
	tIface = reflect.TypeOf((*interface{})(nil)).Elem()
	tArray = reflect.TypeOf((*zerolog.Array)(nil))
)

// synth builds an argument of type t whose every observable use bumps the touch counter.
func synth(t reflect.Type, tc touch) (reflect.Value, error) {
	ro := recObj{tc}
	switch t {
	case tEvent:
		return reflect.ValueOf(zerolog.Dict()), nil
	case tArray:
		return reflect.ValueOf(zerolog.Arr()), nil
	case tCtx:
		return reflect.ValueOf(context.Background()), nil
	}
	switch t.Kind() {
	case reflect.Interface:
		if reflect.TypeOf(ro).Implements(t) {
			return reflect.ValueOf(ro).Convert(t), nil
		}
		return reflect.Value{}, fmt.Errorf("cannot synthesize interface %s", t)
	case reflect.Func:
		fn := reflect.MakeFunc(t, func(in []reflect.Value) []reflect.Value {
			*tc.n++
			outs := make([]reflect.Value, t.NumOut())
			for i := range outs {
				outs[i] = reflect.Zero(t.Out(i))
			}
			return outs
		})
		return fn, nil
	case reflect.Slice:
		el, err := synth(t.Elem(), tc)
		if err != nil {
			return reflect.Value{}, err
		}
		return reflect.Append(reflect.MakeSlice(t, 0, 2), el, el), nil
	case reflect.Ptr:
		return reflect.Value{}, fmt.Errorf("cannot synthesize pointer %s", t)
	case reflect.String:
		return reflect.ValueOf("x").Convert(t), nil
	case reflect.Struct:
		switch v := reflect.New(t).Interface().(type) {
		case *time.Time:
			*v = time.Unix(1, 0)
			return reflect.ValueOf(*v), nil
		case *net.IPNet:
			*v = net.IPNet{IP: net.IP{1, 2, 3, 4}, Mask: net.CIDRMask(8, 32)}
			return reflect.ValueOf(*v), nil
		}
		return reflect.Zero(t), nil
	case reflect.Map, reflect.Chan, reflect.UnsafePointer:
		return reflect.Value{}, fmt.Errorf("cannot synthesize %s", t)
	}
	v := reflect.New(t).Elem()
	switch t.Kind() {
	case reflect.Int, reflect.Int8, reflect.Int16, reflect.Int32, reflect.Int64:
		v.SetInt(1)
	case reflect.Uint, reflect.Uint8, reflect.Uint16, reflect.Uint32, reflect.Uint64:
		v.SetUint(1)
	case reflect.Float32, reflect.Float64:
		v.SetFloat(1.5)
	case reflect.Bool:
		v.SetBool(true)
	}
	return v, nil
}

func c04Inert(out *evid.Out, viol func(string, string, map[string]interface{})) {
	cnt := 0
	tc := touch{&cnt}
	hookRec := recObj{tc}
	wr := recObj{tc}
	// the package-level callbacks count too: a field method on a disabled event must not consult the clock, the error /
	// interface / caller / level marshalers or the stack marshaler
	oTS, oEM, oES, oIM, oCM, oLM := zerolog.TimestampFunc, zerolog.ErrorMarshalFunc, zerolog.ErrorStackMarshaler, zerolog.InterfaceMarshalFunc, zerolog.CallerMarshalFunc, zerolog.LevelFieldMarshalFunc
	defer func() {
		zerolog.TimestampFunc, zerolog.ErrorMarshalFunc, zerolog.ErrorStackMarshaler, zerolog.InterfaceMarshalFunc, zerolog.CallerMarshalFunc, zerolog.LevelFieldMarshalFunc = oTS, oEM, oES, oIM, oCM, oLM
	}()
	zerolog.TimestampFunc = func() time.Time { cnt++; return time.Unix(2, 0) }
	zerolog.ErrorMarshalFunc = func(err error) interface{} { cnt++; return err }
	zerolog.ErrorStackMarshaler = func(err error) interface{} { cnt++; return "stk" }
	zerolog.InterfaceMarshalFunc = func(v interface{}) ([]byte, error) { cnt++; return []byte("0"), nil }
	zerolog.CallerMarshalFunc = func(pc uintptr, file string, line int) string { cnt++; return "c" }
	zerolog.LevelFieldMarshalFunc = func(l zerolog.Level) string { cnt++; return "l" }
	mk := []struct {
		name string
		ev   func() *zerolog.Event
	}{
		{"level-filtered", func() *zerolog.Event { l := zerolog.New(wr).Hook(hookRec).Level(zerolog.ErrorLevel); return l.Info() }},
		{"below-trace", func() *zerolog.Event { l := zerolog.New(wr).Hook(hookRec); return l.WithLevel(-5) }},
		{"global-filtered", func() *zerolog.Event {
			zerolog.SetGlobalLevel(zerolog.ErrorLevel)
			defer zerolog.SetGlobalLevel(zerolog.TraceLevel)
			l := zerolog.New(wr).Hook(hookRec)
			return l.Warn()
		}},
		{"zero-value-logger", func() *zerolog.Event { var l zerolog.Logger; return l.Error() }},
		{"sampler-filtered", func() *zerolog.Event { l := zerolog.New(wr).Hook(hookRec).Sample(hookRec); return l.Warn() }},
		{"WithLevel(Disabled)", func() *zerolog.Event { l := zerolog.New(wr).Hook(hookRec); return l.WithLevel(zerolog.Disabled) }},
		{"Nop", func() *zerolog.Event { l := zerolog.Nop(); return l.Error() }},
		{"ctx-disabled", func() *zerolog.Event { return zerolog.Ctx(context.Background()).Error() }},
	}
	nm := tEvent.NumMethod()
	calls := int64(0)
	var names []string
	for i := 0; i < nm; i++ {
		m := tEvent.Method(i)
		names = append(names, m.Name)
		for _, src := range mk {
			e := src.ev()
			if e != nil {
				fmt.Printf("HARNESS-ERROR c04: %s did not produce a filtered (nil) event\n", src.name)
				os.Exit(2)
			}
			in := []reflect.Value{reflect.ValueOf(e)}
			mt := m.Type
			ok := true
			for a := 1; a < mt.NumIn(); a++ {
				at := mt.In(a)
				if mt.IsVariadic() && a == mt.NumIn()-1 {
					v, err := synth(at.Elem(), tc)
					if err != nil {
						fmt.Printf("HARNESS-INCOMPLETE c04: method Event.%s: %v\n", m.Name, err)
						os.Exit(2)
					}
					in = append(in, v)
					continue
				}
				v, err := synth(at, tc)
				if err != nil {
					fmt.Printf("HARNESS-INCOMPLETE c04: method Event.%s: %v\n", m.Name, err)
					os.Exit(2)
				}
				in = append(in, v)
			}
			if !ok {
				continue
			}
			cnt = 0
			calls++
			func() {
				defer func() {
					if r := recover(); r != nil {
						viol("inert-panic:"+m.Name, fmt.Sprintf("Event.%s on a %s event panicked: %v", m.Name, src.name, r), map[string]interface{}{"method": m.Name, "source": src.name})
					}
				}()
				rets := m.Func.Call(in)
				for _, rv := range rets {
					if rv.Type() == tEvent && !rv.IsNil() {
						viol("inert-nonnil:"+m.Name, fmt.Sprintf("Event.%s on a %s event returned a non-nil *Event", m.Name, src.name), map[string]interface{}{"method": m.Name})
					}
					if rv.Kind() == reflect.Bool && m.Name == "Enabled" && rv.Bool() {
						viol("inert-enabled", fmt.Sprintf("Enabled() on a %s event returned true", src.name), nil)
					}
				}
			}()
			if cnt != 0 {
				viol("inert-effect:"+m.Name, fmt.Sprintf("Event.%s on a %s event invoked %d hook/callback/marshaler/writer call(s)", m.Name, src.name, cnt), map[string]interface{}{"method": m.Name, "source": src.name})
			}
		}
	}
	out.Count("inert_method_calls", calls)
	out.Count("event_methods_enumerated", int64(nm))
	out.Extra["event_methods"] = names
}

func c04PanicFatal(out *evid.Out, viol func(string, string, map[string]interface{})) {
	n := int64(0)
	w := &cntW{}
	// filtered Panic() still panics; enabled Panic() writes then panics with the message
	for _, filtered := range []bool{true, false} {
		n++
		l := zerolog.New(w)
		if filtered {
			l = l.Level(zerolog.Disabled)
		}
		w.n = 0
		var rec interface{}
		func() {
			defer func() { rec = recover() }()
			l.Panic().Str("k", "v").Msg("boom")
		}()
		if rec == nil {
			viol("panic-missing", fmt.Sprintf("Panic().Msg did not panic (filtered=%v)", filtered), nil)
		}
		if filtered && w.n != 0 || !filtered && (w.n != 1 || w.last != zerolog.PanicLevel || rec != "boom") {
			viol("panic-write", fmt.Sprintf("Panic() filtered=%v: writes=%d level=%d recovered=%v", filtered, w.n, w.last, rec), nil)
		}
	}
	// ... also on loggers that can never write: the zero value (no writer at all), Nop(), New(nil), and for every finalizer
	// (round 15: a nil-writer shortcut placed before the "filtered Panic still panics" step)
	for _, k := range []struct {
		name string
		mk   func() zerolog.Logger
	}{
		{"zero-value Logger", func() zerolog.Logger { var l zerolog.Logger; return l }},
		{"copy of a zero-value Logger with a level", func() zerolog.Logger { var l zerolog.Logger; return l.Level(zerolog.TraceLevel) }},
		{"Nop()", func() zerolog.Logger { return zerolog.Nop() }},
		{"New(nil).Level(Disabled)", func() zerolog.Logger { return zerolog.New(nil).Level(zerolog.Disabled) }},
		{"Logger{}.With().Logger()", func() zerolog.Logger { var l zerolog.Logger; return l.With().Str("a", "b").Logger() }},
	} {
		for fin := 0; fin < 4; fin++ {
			n++
			l := k.mk()
			var rec interface{}
			ran := false
			func() {
				defer func() { rec = recover() }()
				e := l.Panic().Str("k", "v")
				switch fin {
				case 0:
					e.Msg("boom")
				case 1:
					e.Send()
				case 2:
					e.Msgf("%s", "boom")
				case 3:
					e.MsgFunc(func() string { ran = true; return "boom" })
				}
			}()
			if rec == nil {
				viol("panic-missing", fmt.Sprintf("Panic() on a %s, finalizer %d: did not panic", k.name, fin), nil)
			}
			if ran {
				viol("panic-write", fmt.Sprintf("Panic() on a %s: the MsgFunc callback of the filtered event ran", k.name), nil)
			}
		}
	}
	out.Count("panic_on_writerless_loggers", 20)
	// WithLevel(Panic/Fatal) neither panics nor exits - whatever the goroutine did just before: events are pooled, and a
	// Panic() event that was written, discarded (by the caller or by a hook), sampled out or filtered, and recovered
	// from, must leave nothing behind
	histories := []func(){
		func() {},
		func() { defer func() { recover() }(); hl := zerolog.New(io.Discard); hl.Panic().Msg("h-written") },
		func() {
			defer func() { recover() }()
			hl := zerolog.New(io.Discard).Hook(zerolog.HookFunc(func(e *zerolog.Event, _ zerolog.Level, _ string) { e.Discard() }))
			hl.Panic().Msg("h-hook-discarded")
		},
		func() {
			defer func() { recover() }()
			hl := zerolog.New(io.Discard)
			hl.Panic().Discard().Msg("h-discarded")
		},
		func() {
			defer func() { recover() }()
			hl := zerolog.New(io.Discard).Sample(recObj{})
			hl.Panic().Msg("h-sampled-out")
		},
		func() {
			defer func() { recover() }()
			hl := zerolog.New(io.Discard).Level(zerolog.Disabled)
			hl.Panic().Msg("h-filtered")
		},
		func() {
			defer func() { recover() }()
			hl := zerolog.New(io.Discard).Hook(zerolog.HookFunc(func(e *zerolog.Event, _ zerolog.Level, _ string) { e.Discard() }))
			hl.Panic().Send()
			hl.Panic().Msgf("%d", 1)
		},
	}
	for hi, hist := range histories {
		for _, lv := range []zerolog.Level{zerolog.PanicLevel, zerolog.FatalLevel, zerolog.InfoLevel, zerolog.NoLevel} {
			for _, filtered := range []bool{true, false} {
				n++
				l := zerolog.New(w)
				if filtered {
					l = l.Level(zerolog.Disabled)
				}
				hist()
				w.n = 0
				var rec interface{}
				func() {
					defer func() { rec = recover() }()
					switch {
					case lv == zerolog.InfoLevel && hi%2 == 1:
						l.Info().Msg("x")
					case lv == zerolog.NoLevel && hi%2 == 1:
						l.Log().Msg("x")
					default:
						l.WithLevel(lv).Msg("x")
					}
				}()
				want := 1
				if filtered {
					want = 0
				}
				if rec != nil || w.n != want || (want == 1 && w.last != lv) {
					viol("withlevel-terminal", fmt.Sprintf("WithLevel(%d) filtered=%v after history %d: recovered=%v writes=%d", lv, filtered, hi, rec, w.n), nil)
				}
			}
		}
	}
	// Fatal in a re-executed child
	self, err := os.Executable()
	if err != nil {
		fmt.Println("HARNESS-ERROR c04: os.Executable:", err)
		os.Exit(2)
	}
	for _, mode := range []string{"fatal-filtered", "fatal-global-filtered", "fatal-enabled", "withlevel-fatal", "fatal-sampled-out", "fatal-zero-value", "fatal-nop"} {
		n++
		cmd := exec.Command(self, "c04-fatal-child", mode)
		b, err := cmd.Output()
		code := 0
		if ee, ok := err.(*exec.ExitError); ok {
			code = ee.ExitCode()
		} else if err != nil {
			fmt.Println("HARNESS-ERROR c04: child:", err)
			os.Exit(2)
		}
		s := string(b)
		switch mode {
		case "fatal-filtered", "fatal-global-filtered", "fatal-sampled-out", "fatal-zero-value", "fatal-nop":
			if code != 1 || strings.Contains(s, "AFTER") || strings.Contains(s, "\"level\"") {
				viol("fatal-"+mode, fmt.Sprintf("%s: exit code %d, stdout %q (expected exit 1, nothing written, no return)", mode, code, s), nil)
			}
		case "fatal-enabled":
			if code != 1 || strings.Contains(s, "AFTER") || !strings.Contains(s, `{"level":"fatal","message":"bye"}`) {
				viol("fatal-enabled", fmt.Sprintf("enabled Fatal(): exit code %d, stdout %q", code, s), nil)
			}
		case "withlevel-fatal":
			if code != 0 || !strings.Contains(s, "AFTER") || !strings.Contains(s, `{"level":"fatal","message":"bye"}`) {
				viol("withlevel-fatal-exit", fmt.Sprintf("WithLevel(FatalLevel): exit code %d, stdout %q", code, s), nil)
			}
		}
	}
	out.Count("panic_fatal_cases", n)
}

func c04FatalChild(args []string) int {
	mode := args[0]
	l := zerolog.New(os.Stdout)
	switch mode {
	case "fatal-filtered":
		l = l.Level(zerolog.PanicLevel)
		l.Fatal().Msg("bye")
	case "fatal-global-filtered":
		zerolog.SetGlobalLevel(zerolog.Disabled)
		l.Fatal().Msg("bye")
	case "fatal-sampled-out":
		l = l.Sample(&cntSampler{})
		l.Fatal().Msg("bye")
	case "fatal-enabled":
		l.Fatal().Msg("bye")
	case "fatal-zero-value":
		var z zerolog.Logger
		z.Fatal().Msg("bye")
	case "fatal-nop":
		z := zerolog.Nop()
		z.Fatal().Msg("bye")
	case "withlevel-fatal":
		l.WithLevel(zerolog.FatalLevel).Msg("bye")
	}
	fmt.Println("AFTER")
	return 0
}
