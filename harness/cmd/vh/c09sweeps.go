package main

import (
	"bytes"
	"fmt"

	"github.com/rs/zerolog/diode/verifh/cborv"
	"github.com/rs/zerolog/diode/verifh/evid"
)

func init() {
	commands["c09-runes"] = func(a []string) int { return runeSweep("C09", a) }
	commands["c09-lengths"] = func(a []string) int { return lengthSweep("C09", a) }
}

// c09members parses one binary event with the independent parser and returns its members by (text) key.
func c09members(out *evid.Out, b []byte, what string) map[string]*cborv.Node {
	n, err := cborv.Parse(b)
	if err != nil {
		out.Violate(sigOf("sweep:ill-formed", err.Error()), fmt.Sprintf("%s: the event is not one well-formed CBOR data item: %v: %x", what, err, clipb(b)), map[string]interface{}{"check": "c09-sweep", "bytes_hex": fmt.Sprintf("%x", clipb(b))})
		return nil
	}
	if n.Major != 5 || len(n.Items)%2 != 0 {
		out.Violate("sweep:not-a-map", fmt.Sprintf("%s: the event is not a map of key/value pairs", what), map[string]interface{}{"check": "c09-sweep", "bytes_hex": fmt.Sprintf("%x", clipb(b))})
		return nil
	}
	m := map[string]*cborv.Node{}
	for i := 0; i+1 < len(n.Items); i += 2 {
		k := n.Items[i]
		if k.Major != 3 {
			out.Violate("sweep:key-not-text", fmt.Sprintf("%s: key %d is not a text string", what, i/2), map[string]interface{}{"check": "c09-sweep", "bytes_hex": fmt.Sprintf("%x", clipb(b))})
			return nil
		}
		m[string(k.Bytes)] = n.Items[i+1]
	}
	return m
}

func isText(n *cborv.Node, want []byte) bool { return n != nil && n.Major == 3 && bytes.Equal(n.Bytes, want) }
func isBytes(n *cborv.Node, want []byte) bool {
	return n != nil && n.Major == 2 && bytes.Equal(n.Bytes, want)
}

// c09runeCheck: text strings carry the logged bytes verbatim, byte strings the logged bytes.
func c09runeCheck(out *evid.Out, b []byte, cp int, text string, raw []byte, full bool) {
	m := c09members(out, b, fmt.Sprintf("U+%04X", cp))
	if m == nil {
		return
	}
	bad := func(where string) {
		out.Violate("sweep:rune:"+where, fmt.Sprintf("U+%04X logged through %s: the binary event does not carry the logged bytes", cp, where), map[string]interface{}{"check": "c09-sweep", "code_point": fmt.Sprintf("U+%04X", cp), "bytes_hex": fmt.Sprintf("%x", clipb(b))})
	}
	if !isText(m[text], []byte(text)) {
		bad("key/Str")
	}
	if !isBytes(m["b"], raw) {
		bad("Bytes")
	}
	if full {
		if !isText(m["c"], []byte(text)) {
			bad("Context.Str")
		}
		if !isText(m["raw"], raw) {
			bad("Str(raw bytes)")
		}
		if !isText(m["message"], []byte(text)) {
			bad("Msg")
		}
		if ss := m["ss"]; ss == nil || ss.Major != 4 || len(ss.Items) != 2 || !isText(ss.Items[0], []byte(text)) || !isText(ss.Items[1], []byte(text)) {
			bad("Strs")
		}
		if a := m["arr"]; a == nil || a.Major != 4 || len(a.Items) != 2 || !isText(a.Items[0], []byte(text)) || !isBytes(a.Items[1], raw) {
			bad("Array")
		}
		if d := m["d"]; d == nil || d.Major != 5 || len(d.Items) != 2 || !isText(d.Items[0], []byte(text)) || !isText(d.Items[1], []byte(text)) {
			bad("Dict")
		}
	}
}

// c09lenCheck: lengths and contents as logged, in the documented representation.
func c09lenCheck(out *evid.Out, b []byte, n int, ks string, val []byte, ints []int, bools []bool, strs []string) {
	m := c09members(out, b, fmt.Sprintf("length %d", n))
	if m == nil {
		return
	}
	bad := func(where string) {
		out.Violate("sweep:length:"+where, fmt.Sprintf("length %d: %s is not carried as logged", n, where), map[string]interface{}{"check": "c09-sweep", "length": n, "bytes_hex": fmt.Sprintf("%x", clipb(b))})
	}
	if !isText(m[ks], val) {
		bad("key / text value")
	}
	if !isBytes(m["bytes"], val) {
		bad("Bytes")
	}
	if h := m["hex"]; h == nil || h.Major != 6 || h.Arg != 263 || !isBytes(h.Child, val) {
		bad("Hex (tag 263 around a byte string)")
	}
	if n == 0 {
		if _, ok := m["message"]; ok {
			bad("empty message (must be absent)")
		}
	} else if !isText(m["message"], val) {
		bad("message")
	}
	if a := m["ints"]; a == nil || a.Major != 4 || len(a.Items) != len(ints) {
		bad("Ints (element count)")
	} else {
		for j, it := range a.Items {
			v := int64(it.Arg)
			if it.Major == 1 {
				v = -1 - int64(it.Arg)
			}
			if it.Major > 1 || v != int64(ints[j]) {
				bad(fmt.Sprintf("Ints element %d", j))
				break
			}
		}
	}
	if a := m["bools"]; a == nil || a.Major != 4 || len(a.Items) != len(bools) {
		bad("Bools (element count)")
	} else {
		for j, it := range a.Items {
			if it.Major != 7 || (it.Info != 20 && it.Info != 21) || (it.Info == 21) != bools[j] {
				bad(fmt.Sprintf("Bools element %d", j))
				break
			}
		}
	}
	if a := m["strs"]; a == nil || a.Major != 4 || len(a.Items) != len(strs) {
		bad("Strs (element count)")
	} else {
		for j, it := range a.Items {
			if !isText(it, []byte("s")) {
				bad(fmt.Sprintf("Strs element %d", j))
				break
			}
		}
	}
}
