package main

import (
	"time"
	"math"
	"encoding/base64"
	"encoding/json"
	"fmt"
	"net"
	"unicode/utf8"

	"github.com/rs/zerolog"
	"github.com/rs/zerolog/diode/verifh/evid"
	"github.com/rs/zerolog/diode/verifh/gen"
	"github.com/rs/zerolog/diode/verifh/jsonv"
	"github.com/rs/zerolog/internal/cbor"
)

func init() {
	commands["c02-runes"] = func(a []string) int { return runeSweep("C02", a) }
	commands["c08-runes"] = func(a []string) int { return runeSweep("C08", a) } // binary build: through the encoder and the bundled decoder
}

// c02runes: "text exactly" over every Unicode code point. For each of the 1 114 112 code points (surrogates included:
// as a Go string they are the replacement character, as raw bytes they are invalid UTF-8) the text "a"+rune+"b" is
// logged as a key, through Str, Bytes, Strs, Array.Str, a Dict, the context and the message; the event is read back
// with the harness's own parser and with encoding/json, and every occurrence must be the text that was logged
// (invalid sequences: one U+FFFD per invalid byte, as documented).
func runeSweep(prop string, args []string) int {
	f := mustFlags(args)
	out := evid.New(prop)
	if (prop != "C02") != isBinaryBuild() {
		fmt.Println("rune sweep: c02-runes needs the default build, c08-runes / c09-runes the binary_log build")
		return 2
	}
	out.Sub = "runes"
	st := gen.DefaultSettings()
	restore := st.Apply()
	defer restore()
	w := &bufW{}
	l := zerolog.New(w)
	const total = 0x110000
	lo := total / f.NShards * f.Shard
	hi := total / f.NShards * (f.Shard + 1)
	if f.Shard == f.NShards-1 {
		hi = total
	}
	var n, nsur int64
	for cp := lo; cp < hi; cp++ {
		r := rune(cp)
		text := "a" + string(r) + "b" // surrogates and out-of-range values become U+FFFD here (Go's conversion)
		raw := []byte(text)
		want := text
		if r >= 0xd800 && r <= 0xdfff {
			// also the raw 3-byte surrogate encoding: invalid UTF-8, three replacement characters
			raw = []byte{'a', 0xed, byte(0xa0 | (cp>>6)&0x1f), byte(0x80 | cp&0x3f), 'b'}
			nsur++
		}
		wantRaw := ""
		for i := 0; i < len(raw); {
			rr, size := utf8.DecodeRune(raw[i:])
			if rr == utf8.RuneError && size == 1 {
				wantRaw += "�"
			} else {
				wantRaw += string(raw[i : i+size])
			}
			i += size
		}
		full := cp%64 == 0 || cp < 0x3000 || (cp >= 0xd7f0 && cp <= 0xe010) || (cp >= 0xfff0 && cp <= 0x10010) || cp >= 0x10fff0
		if full {
			cl := l.With().Str("c", text).Logger()
			cl.Log().Str(text, text).Bytes("b", raw).Strs("ss", []string{text, text}).Array("arr", zerolog.Arr().Str(text).Bytes(raw)).
				Dict("d", zerolog.Dict().Str(text, text)).Str("raw", string(raw)).Msg(text)
		} else {
			l.Log().Str(text, text).Bytes("b", raw).Send()
		}
		n++
		bad := func(sig, desc string) {
			out.Violate(sig, desc, map[string]interface{}{"check": "rune-sweep", "code_point": fmt.Sprintf("U+%04X", cp), "bytes": fmt.Sprintf("%q", clipb(w.b))})
		}
		if prop == "C09" {
			c09runeCheck(out, w.b, cp, text, raw, full)
			continue
		}
		if prop == "C08" {
			w.b = cbor.DecodeIfBinaryToBytes(w.b)
		}
		obj, err := jsonv.ParseLine(w.b)
		if err != nil {
			bad("rune:invalid", fmt.Sprintf("U+%04X: the event is not one well-formed JSON line: %v: %q", cp, err, clipb(w.b)))
			continue
		}
		var m map[string]interface{}
		if err := json.Unmarshal(w.b, &m); err != nil {
			bad("rune:invalid", fmt.Sprintf("U+%04X: encoding/json rejects the event: %v", cp, err))
			continue
		}
		chk := func(where string, got interface{}, want string) {
			if s, ok := got.(string); !ok || s != want {
				bad("rune:text:"+where, fmt.Sprintf("U+%04X logged through %s: decodes to %q, logged %q", cp, where, got, want))
			}
		}
		chk("Str", m[want], want)
		chk("Bytes", m["b"], wantRaw)
		if v := obj.Get(want); v == nil || v.Kind != jsonv.String || v.Str != want {
			bad("rune:text:key", fmt.Sprintf("U+%04X: no member with the logged key %q (own parser)", cp, want))
		}
		if full {
			chk("Context.Str", m["c"], want)
			chk("Str(raw bytes)", m["raw"], wantRaw)
			chk("Msg", m["message"], want)
			if ss, ok := m["ss"].([]interface{}); !ok || len(ss) != 2 {
				bad("rune:text:Strs", fmt.Sprintf("U+%04X: Strs decodes to %v", cp, m["ss"]))
			} else {
				chk("Strs[0]", ss[0], want)
				chk("Strs[1]", ss[1], want)
			}
			if arr, ok := m["arr"].([]interface{}); !ok || len(arr) != 2 {
				bad("rune:text:Array", fmt.Sprintf("U+%04X: Array decodes to %v", cp, m["arr"]))
			} else {
				chk("Array.Str", arr[0], want)
				chk("Array.Bytes", arr[1], wantRaw)
			}
			if d, ok := m["d"].(map[string]interface{}); !ok {
				bad("rune:text:Dict", fmt.Sprintf("U+%04X: Dict decodes to %v", cp, m["d"]))
			} else {
				chk("Dict.Str", d[want], want)
			}
		}
	}
	out.Evaluations = n
	out.Count("code_points_logged", n)
	out.Count("surrogate_code_points_as_raw_bytes", nsur)
	out.Finish(f)
	return 0
}

// chainObj logs itself and, below it, a chain of d more nodes.
type chainObj struct{ d int }

func (c *chainObj) MarshalZerologObject(e *zerolog.Event) {
	e.Int("d", c.d)
	if c.d > 0 {
		e.Object("next", &chainObj{c.d - 1})
	}
}

func init() {
	commands["c02-lengths"] = func(a []string) int { return lengthSweep("C02", a) }
	commands["c08-lengths"] = func(a []string) int { return lengthSweep("C08", a) }
}

// lengthSweep: every length 0..1100 and the neighbourhoods of 2^16 (and, in thorough, 2^16..2^16+40 000 by a
// stride) for a key, a text value, a byte string, a hex string and the typed slices: what comes back has that length
// and that content (header-width boundaries of the binary encoding: 23/24, 255/256, 65535/65536).
func lengthSweep(prop string, args []string) int {
	f := mustFlags(args)
	out := evid.New(prop)
	out.Sub = "lengths"
	if (prop != "C02") != isBinaryBuild() {
		fmt.Println("length sweep: c02-lengths needs the default build, c08-lengths / c09-lengths the binary_log build")
		return 2
	}
	st := gen.DefaultSettings()
	restore := st.Apply()
	defer restore()
	w := &bufW{}
	l := zerolog.New(w)
	var lens []int
	for n := 0; n <= 1100; n++ {
		lens = append(lens, n)
	}
	for n := 65500; n <= 65600; n++ {
		lens = append(lens, n)
	}
	if f.Thorough() {
		for n := 1101; n < 140000; n += 997 {
			lens = append(lens, n)
		}
	}
	var cnt int64
	var origSaved []byte
	for i, n := range lens {
		if !f.Mine(i) {
			continue
		}
		key := make([]byte, n)
		val := make([]byte, n)
		for j := range key {
			key[j] = byte('a' + j%26)
			val[j] = byte('A' + (j+n)%26)
		}
		ints := make([]int, 0, n)
		bools := make([]bool, 0, n)
		strs := make([]string, 0, n)
		if n <= 1100 || n%7 == 0 {
			for j := 0; j < n; j++ {
				ints = append(ints, j-3)
				bools = append(bools, j%3 == 0)
				strs = append(strs, "s")
			}
		}
		ks := "K" + string(key) // never collides with the fixed names below
		l.Log().Str(ks, string(val)).Bytes("bytes", val).Hex("hex", val).RawCBOR("cbor", val).Ints("ints", ints).Bools("bools", bools).Strs("strs", strs).Msg(string(val))
		cnt++
		if prop == "C09" {
			c09lenCheck(out, w.b, n, ks, val, ints, bools, strs)
		}
		if n <= 300 && prop != "C08" {
			// hardware and IP addresses of every length (both are plain byte slices): C08's statement is limited to 6-byte
			// MACs and 4/16-byte IPs, the JSON text forms and the binary representation are not
			mac, ip := net.HardwareAddr(val), net.IP(val)
			origSaved = append([]byte(nil), w.b...)
			l.Log().MACAddr("mac", mac).IPAddr("ip", ip).Array("arr", zerolog.Arr().MACAddr(mac).IPAddr(ip)).Send()
			out.Count("address_lengths_logged", 1)
			if prop == "C09" {
				if m := c09members(out, w.b, fmt.Sprintf("addresses of %d bytes", n)); m != nil {
					for _, k := range []string{"mac", "ip"} {
						if a := m[k]; a == nil || a.Major != 6 || a.Arg != 260 || !isBytes(a.Child, val) {
							out.Violate("sweep:length:address", fmt.Sprintf("a %d-byte %s address is not carried as tag 260 around its bytes", n, k), map[string]interface{}{"check": "c09-sweep", "length": n, "bytes_hex": fmt.Sprintf("%x", clipb(w.b))})
						}
					}
				}
			} else {
				var m map[string]interface{}
				if err := json.Unmarshal(w.b, &m); err != nil {
					out.Violate("length:invalid", fmt.Sprintf("addresses of %d bytes: encoding/json rejects the event: %v", n, err), map[string]interface{}{"check": "length-sweep", "length": n, "bytes": fmt.Sprintf("%q", clipb(w.b))})
				} else {
					arr, _ := m["arr"].([]interface{})
					if m["mac"] != mac.String() || m["ip"] != ip.String() || len(arr) != 2 || arr[0] != mac.String() || arr[1] != ip.String() {
						out.Violate("length:address", fmt.Sprintf("addresses of %d bytes: logged MAC %q and IP %q, the event has %v / %v / %v", n, mac.String(), ip.String(), m["mac"], m["ip"], m["arr"]), map[string]interface{}{"check": "length-sweep", "length": n, "bytes": fmt.Sprintf("%q", clipb(w.b))})
					}
				}
			}
		}
		if prop == "C09" {
			continue
		}
		if origSaved != nil {
			w.b, origSaved = origSaved, nil
		}
		if prop == "C08" {
			w.b = cbor.DecodeIfBinaryToBytes(w.b)
		}
		bad := func(sig, desc string) {
			out.Violate(sig, desc, map[string]interface{}{"check": "length-sweep", "length": n, "bytes": fmt.Sprintf("%q", clipb(w.b))})
		}
		if _, err := jsonv.ParseLine(w.b); err != nil {
			bad("length:invalid", fmt.Sprintf("length %d: the event is not one well-formed JSON line: %v", n, err))
			continue
		}
		var m map[string]interface{}
		if err := json.Unmarshal(w.b, &m); err != nil {
			bad("length:invalid", fmt.Sprintf("length %d: encoding/json rejects the event: %v", n, err))
			continue
		}
		if s, ok := m[ks].(string); !ok || s != string(val) {
			bad("length:key-or-text", fmt.Sprintf("a key of %d+1 bytes with a text value of %d bytes: the member is missing or its value differs", n, n))
		}
		if s, ok := m["bytes"].(string); !ok || s != string(val) {
			bad("length:bytes", fmt.Sprintf("Bytes of %d bytes decodes to %d bytes", n, len(s)))
		}
		if s, ok := m["cbor"].(string); !ok || s != "data:application/cbor;base64,"+base64.StdEncoding.EncodeToString(val) {
			bad("length:rawcbor", fmt.Sprintf("RawCBOR of %d bytes is not the data URL of its standard base64 text (%d characters)", n, len(s)))
		}
		if s, ok := m["hex"].(string); !ok || s != fmt.Sprintf("%x", val) {
			bad("length:hex", fmt.Sprintf("Hex of %d bytes decodes to %d characters", n, len(s)))
		}
		if n == 0 {
			if _, ok := m["message"]; ok {
				bad("length:message", "an empty message is written as a member")
			}
		} else if s, ok := m["message"].(string); !ok || s != string(val) {
			bad("length:message", fmt.Sprintf("a message of %d bytes decodes to %d bytes", n, len(s)))
		}
		for name, wantLen := range map[string]int{"ints": len(ints), "bools": len(bools), "strs": len(strs)} {
			a, ok := m[name].([]interface{})
			if !ok || len(a) != wantLen {
				bad("length:slice", fmt.Sprintf("%s of %d elements decodes to %d elements", name, wantLen, len(a)))
				continue
			}
			for j := range a {
				okv := false
				switch name {
				case "ints":
					v, isn := a[j].(float64)
					okv = isn && int(v) == ints[j]
				case "bools":
					v, isb := a[j].(bool)
					okv = isb && v == bools[j]
				default:
					v, iss := a[j].(string)
					okv = iss && v == "s"
				}
				if !okv {
					bad("length:slice", fmt.Sprintf("%s of %d elements: element %d decodes to %v", name, wantLen, j, a[j]))
					break
				}
			}
		}
	}
	// instants from year 1 to year 9999, whole seconds and binary-exact fractions (so that the float seconds of the binary
	// encoding are exact at any distance from 1970), through every entry point that carries a time
	if f.Shard == 0 {
		oldF := zerolog.TimeFieldFormat
		zerolog.TimeFieldFormat = time.RFC3339Nano
		for _, year := range []int{1, 2, 1000, 1600, 1677, 1678, 1900, 1969, 1970, 1971, 2100, 2262, 2263, 2300, 5000, 9999} {
			for _, frac := range []int{0, 500000000, 250000000, 750000000, 125000000} {
				for zi, zone := range []*time.Location{time.UTC, time.FixedZone("", 5*3600+1800)} {
					t := time.Date(year, 1, 2, 3, 4, 5, frac, zone)
					cl := l.With().Time("c", t).Logger()
					cl.Log().Time("e", t).Times("s", []time.Time{t, t}).Array("a", zerolog.Arr().Time(t)).Fields(map[string]interface{}{"f": t}).Send()
					cnt++
					out.Count("far_instants_logged", 1)
					rep := map[string]interface{}{"check": "length-sweep", "instant": t.Format(time.RFC3339Nano)}
					if prop == "C09" {
						m := c09members(out, w.b, "instant "+t.Format(time.RFC3339Nano))
						if m == nil {
							continue
						}
						for _, k := range []string{"c", "e", "f"} {
							n := m[k]
							okv := n != nil && n.Major == 6 && n.Arg == 1 && n.Child != nil
							if okv {
								c := n.Child
								switch {
								case c.Float:
									okv = c.Info == 27 && math.Float64frombits(c.Bits) == float64(t.Unix())+float64(frac)*1e-9
								case c.Major == 0:
									okv = frac == 0 && int64(c.Arg) == t.Unix()
								case c.Major == 1:
									okv = frac == 0 && -1-int64(c.Arg) == t.Unix()
								default:
									okv = false
								}
							}
							if !okv {
								rep["bytes_hex"] = fmt.Sprintf("%x", clipb(w.b))
								out.Violate("sweep:instant", fmt.Sprintf("instant %s logged through member %q is not carried as tag 1 around its seconds since 1970", t.Format(time.RFC3339Nano), k), rep)
								break
							}
						}
						continue
					}
					if prop == "C08" {
						w.b = cbor.DecodeIfBinaryToBytes(w.b)
					}
					var m map[string]interface{}
					if err := json.Unmarshal(w.b, &m); err != nil {
						rep["bytes"] = fmt.Sprintf("%q", clipb(w.b))
						out.Violate("instant:invalid", fmt.Sprintf("instant %s: encoding/json rejects the event: %v", t.Format(time.RFC3339Nano), err), rep)
						continue
					}
					vals := []interface{}{m["c"], m["e"], m["f"]}
					if a, ok := m["a"].([]interface{}); ok && len(a) == 1 {
						vals = append(vals, a[0])
					} else {
						vals = append(vals, nil)
					}
					if sl, ok := m["s"].([]interface{}); ok && len(sl) == 2 {
						vals = append(vals, sl[0], sl[1])
					} else {
						vals = append(vals, nil)
					}
					for vi, v := range vals {
						str, _ := v.(string)
						got, err := time.Parse(time.RFC3339Nano, str)
						bad := err != nil
						if !bad {
							d := got.Sub(t)
							bad = d > time.Microsecond || d < -time.Microsecond || (prop == "C02" && str != t.Format(time.RFC3339Nano))
							if got.Year() != t.In(got.Location()).Year() { // Sub saturates: compare the calendar too
								bad = true
							}
						}
						if bad {
							rep["bytes"] = fmt.Sprintf("%q", clipb(w.b))
							out.Violate("instant:value", fmt.Sprintf("instant %s (zone %d) through entry point %d (0 context, 1 event, 2 Fields, 3 Array, 4-5 Times) reads back as %v", t.Format(time.RFC3339Nano), zi, vi, v), rep)
							break
						}
					}
				}
			}
		}
		zerolog.TimeFieldFormat = oldF
	}
	// nesting depth 0..300: dictionaries in dictionaries, and a chain of object marshalers inside an array in the context
	if f.Shard == 0 {
		for depth := 0; depth <= 300; depth++ {
			inner := zerolog.Dict().Int("leaf", depth)
			for i := 0; i < depth; i++ {
				inner = zerolog.Dict().Dict("n", inner)
			}
			cl := l.With().Array("chain", zerolog.Arr().Object(&chainObj{depth})).Logger()
			cl.Log().Dict("deep", inner).Str("after", "x").Send()
			cnt++
			out.Count("nesting_depths_logged", 1)
			if prop == "C09" {
				c09members(out, w.b, fmt.Sprintf("nesting depth %d", depth))
				continue
			}
			if prop == "C08" {
				w.b = cbor.DecodeIfBinaryToBytes(w.b)
			}
			var m map[string]interface{}
			if err := json.Unmarshal(w.b, &m); err != nil {
				out.Violate("depth:invalid", fmt.Sprintf("dictionaries nested %d deep: encoding/json rejects the event: %v: %q", depth, err, clipb(w.b)), map[string]interface{}{"check": "length-sweep", "depth": depth})
				continue
			}
			cur, okd := m["deep"].(map[string]interface{})
			for i := 0; i < depth && okd; i++ {
				cur, okd = cur["n"].(map[string]interface{})
			}
			if !okd || cur["leaf"] != float64(depth) || m["after"] != "x" {
				out.Violate("depth:content", fmt.Sprintf("dictionaries nested %d deep: the innermost member or the member after the nest is not what was logged", depth), map[string]interface{}{"check": "length-sweep", "depth": depth, "bytes": fmt.Sprintf("%q", clipb(w.b))})
			}
			ch, okc := m["chain"].([]interface{})
			var node map[string]interface{}
			if okc && len(ch) == 1 {
				node, okc = ch[0].(map[string]interface{})
			} else {
				okc = false
			}
			for i := 0; i < depth && okc; i++ {
				node, okc = node["next"].(map[string]interface{})
			}
			if !okc || node["d"] != float64(0) {
				out.Violate("depth:content", fmt.Sprintf("a chain of %d object marshalers in a context array: the last node is not what was logged", depth), map[string]interface{}{"check": "length-sweep", "depth": depth, "bytes": fmt.Sprintf("%q", clipb(w.b))})
			}
		}
	}
	// every prefix length of both address families, through every entry point that carries a prefix
	if f.Shard == 0 && prop != "C09" {
		for fam, bits := range []int{32, 128} {
			for ones := 0; ones <= bits; ones++ {
				ip := make(net.IP, bits/8)
				for j := range ip {
					ip[j] = byte(0x20 + j + fam)
				}
				pfx := net.IPNet{IP: ip.Mask(net.CIDRMask(ones, bits)), Mask: net.CIDRMask(ones, bits)}
				want := pfx.String()
				cl := l.With().IPPrefix("c", pfx).Logger()
				cl.Log().IPPrefix("e", pfx).Array("a", zerolog.Arr().IPPrefix(pfx)).Dict("d", zerolog.Dict().IPPrefix("x", pfx)).Fields(map[string]interface{}{"f": pfx}).IPAddr("ip", ip).Send()
				cnt++
				if prop == "C08" {
					w.b = cbor.DecodeIfBinaryToBytes(w.b)
				}
				var m map[string]interface{}
				if err := json.Unmarshal(w.b, &m); err != nil {
					out.Violate("prefix:invalid", fmt.Sprintf("/%d of a %d-bit address: encoding/json rejects the event: %v", ones, bits, err), map[string]interface{}{"check": "length-sweep", "bytes": fmt.Sprintf("%q", clipb(w.b))})
					continue
				}
				got := []interface{}{m["c"], m["e"], m["f"]}
				if a, ok := m["a"].([]interface{}); ok && len(a) == 1 {
					got = append(got, a[0])
				} else {
					got = append(got, nil)
				}
				if d, ok := m["d"].(map[string]interface{}); ok {
					got = append(got, d["x"])
				} else {
					got = append(got, nil)
				}
				for gi, g := range got {
					if g != want {
						out.Violate("prefix:text", fmt.Sprintf("prefix %s through entry point %d (0 context, 1 event, 2 Fields, 3 Array, 4 Dict) decodes to %v", want, gi, g), map[string]interface{}{"check": "length-sweep", "bytes": fmt.Sprintf("%q", clipb(w.b))})
						break
					}
				}
				if m["ip"] != ip.String() {
					out.Violate("prefix:ip", fmt.Sprintf("address %s decodes to %v", ip, m["ip"]), map[string]interface{}{"check": "length-sweep", "bytes": fmt.Sprintf("%q", clipb(w.b))})
				}
				out.Count("prefix_lengths_logged", 1)
			}
		}
	}
	out.Evaluations = cnt
	out.Count("lengths_logged", cnt)
	out.Finish(f)
	return 0
}
