package main

import (
	"errors"
	"fmt"
	"github.com/rs/zerolog/diode/verifh/gstate"
	"io"
	"net"
	"os"
	"os/exec"
	"strings"
	"time"

	"github.com/rs/zerolog"
	"github.com/rs/zerolog/diode/verifh/evid"
	"github.com/rs/zerolog/diode/verifh/rng"
)

func init() { commands["c14"] = c14; commands["c14-stderr-child"] = c14StderrChild }

const (
	oOK = iota
	oErr
	oShort
)

type destCall struct {
	lvl  zerolog.Level
	p    string
	byLW bool
}

// faultW returns scripted outcomes per call (indexed by the number of calls it has received).
type faultW struct {
	id      int
	script  []int
	calls   []destCall
	asLevel bool
	salt    int // selects how many bytes a short write accepts: len-1, 0, 1 or len/2
	shorts  [4]int
}

func (w *faultW) outcome(p []byte) (int, error) {
	i := len(w.calls) - 1
	o := oOK
	if i < len(w.script) {
		o = w.script[i]
	}
	switch o {
	case oErr:
		// an error comes with any byte count: none, all, or some of the bytes
		var err error = fmt.Errorf("dest%d-call%d", w.id, i)
		if (w.salt/3+w.id+i)%2 == 1 {
			// the kind of error a socket returns after a deadline: net.Error, Timeout() and Temporary() true. What kind of
			// error a destination fails with changes nothing: reported once, nothing written twice
			err = tmoErr{err.Error()}
		}
		return []int{0, len(p), len(p) / 2}[(w.salt+w.id+i)%3], err
	case oShort:
		k := (w.salt + w.id + i) & 3
		w.shorts[k]++
		return []int{len(p) - 1, 0, 1, len(p) / 2}[k], nil
	}
	return len(p), nil
}

type tmoErr struct{ s string }

func (e tmoErr) Error() string   { return e.s }
func (e tmoErr) Timeout() bool   { return true }
func (e tmoErr) Temporary() bool { return true }

var _ net.Error = tmoErr{}

type plainFaultW struct{ *faultW }

func (w plainFaultW) Write(p []byte) (int, error) {
	w.calls = append(w.calls, destCall{-99, string(p), false})
	return w.outcome(p)
}

type levelFaultW struct{ *faultW }

func (w levelFaultW) Write(p []byte) (int, error) {
	w.calls = append(w.calls, destCall{-99, string(p), false})
	return w.outcome(p)
}
func (w levelFaultW) WriteLevel(l zerolog.Level, p []byte) (int, error) {
	w.calls = append(w.calls, destCall{l, string(p), true})
	return w.outcome(p)
}

type c14case struct {
	d, e     int
	matrix   []int // d*e outcomes, event-major
	filter   []int // per destination: -99 none, else FilteredLevelWriter level
	plain    []bool
	levels   []zerolog.Level
	single   bool // no MultiLevelWriter: one destination directly
	viaWrite bool // the multi writer is reached through its plain Write method (wrapped in a LevelWriterAdapter)
	salt     int  // short-write size selector (see faultW.outcome), wrapper, finalizer, hook and padding selector
	bigPads  bool // some events exceed 64 KiB
}

// panicEntry: the event is started with Logger.Panic() (its level is then PanicLevel)
func (c *c14case) panicEntry(ei int) bool {
	return c.levels[ei] == zerolog.PanicLevel && (c.salt/3+ei)%2 == 0
}

// nested: the event carries nested dictionaries and an array of dictionaries
func (c *c14case) nested(ei int) bool { return (c.salt/2+ei)%3 == 1 }

// pad: some events are larger than the pooled 500-byte buffer, a few (bigPads) larger than 64 KiB
func (c *c14case) pad(ei int) int {
	switch (c.salt/4 + ei) % 5 {
	case 1:
		return 600
	case 3:
		if c.bigPads {
			return 70000
		}
	}
	return 0
}

func (c *c14case) String() string {
	return fmt.Sprintf("{dests=%d events=%d outcomes(event-major)=%v filters=%v plainWriter=%v levels=%v single=%v viaWrite=%v salt=%d bigPads=%v}", c.d, c.e, c.matrix, c.filter, c.plain, c.levels, c.single, c.viaWrite, c.salt, c.bigPads)
}

func c14run(out *evid.Out, c *c14case) {
	if c14stuck {
		return // a logging call of an earlier case is still parked: one report is enough
	}
	dests := make([]*faultW, c.d)
	ws := make([]io.Writer, c.d)
	for i := 0; i < c.d; i++ {
		dests[i] = &faultW{id: i, salt: c.salt}
		var w io.Writer
		if c.plain[i] {
			w = plainFaultW{dests[i]}
		} else {
			w = levelFaultW{dests[i]}
		}
		if c.filter[i] != -99 {
			lw, ok := w.(zerolog.LevelWriter)
			if !ok {
				lw = zerolog.LevelWriterAdapter{Writer: w}
			}
			w = &zerolog.FilteredLevelWriter{Writer: lw, Level: zerolog.Level(c.filter[i])}
		}
		// the failing destination may sit behind other writers of the package: the outcome must travel through
		wrap := (c.salt + 2*i) % 5
		if c.single {
			wrap = 0 // the single-writer cases are about a destination used without any MultiLevelWriter
		}
		switch wrap {
		case 1:
			w = zerolog.SyncWriter(w)
		case 2:
			w = zerolog.MultiLevelWriter(w)
		case 3:
			w = zerolog.SyncWriter(zerolog.MultiLevelWriter(w))
		}
		ws[i] = w
	}
	// which events reach which destination
	reach := func(di, ei int) bool {
		return c.filter[di] == -99 || int(c.levels[ei]) >= c.filter[di]
	}
	// script per destination: the outcome of its k-th *received* call is that of the k-th event reaching it
	for di := 0; di < c.d; di++ {
		for ei := 0; ei < c.e; ei++ {
			if reach(di, ei) {
				dests[di].script = append(dests[di].script, c.matrix[ei*c.d+di])
			}
		}
	}
	var root io.Writer
	var decoys []*faultW
	if !c.single && !c.viaWrite && c.d >= 3 && c.salt%3 == 2 {
		// a shared base fan-out: base = Multi(Multi(w0, w1), w2..), the writer under test = Multi(base, last), and two more
		// writers that extend the same base with destinations of their own, one built before and one after it. The
		// destinations, their order and the error rules are those of the flat writer; the others' destinations get nothing.
		inner := zerolog.MultiLevelWriter(ws[0], ws[1])
		base := zerolog.MultiLevelWriter(append([]io.Writer{inner}, ws[2:c.d-1]...)...)
		da, db := &faultW{id: 100, salt: c.salt}, &faultW{id: 101, salt: c.salt}
		decoys = []*faultW{da, db}
		_ = zerolog.MultiLevelWriter(base, levelFaultW{da})
		root = zerolog.MultiLevelWriter(base, ws[c.d-1])
		_ = zerolog.MultiLevelWriter(base, levelFaultW{db})
		out.Count("cases_with_a_shared_base_fan_out", 1)
	} else if c.single {
		root = ws[0]
	} else if c.viaWrite {
		root = zerolog.LevelWriterAdapter{Writer: zerolog.MultiLevelWriter(ws...)}
	} else {
		root = zerolog.MultiLevelWriter(ws...)
	}
	var handled []error
	old := zerolog.ErrorHandler
	zerolog.ErrorHandler = func(err error) { handled = append(handled, err) }
	defer func() { zerolog.ErrorHandler = old }()
	if c.viaWrite {
		// through the plain Write path no level is known and what a level filter then does is not specified: no filters
		for i := range c.filter {
			if c.filter[i] != -99 {
				panic("c14: viaWrite case with a filter")
			}
		}
	}
	l := zerolog.New(root)
	if c.salt%5 == 3 {
		// the same destination given to a derived logger: Output changes nothing but where the events go
		l = zerolog.New(io.Discard).Output(root)
	}
	if c.salt%4 == 1 {
		l = l.Hook(zerolog.HookFunc(func(e *zerolog.Event, _ zerolog.Level, _ string) { e.Bool("hooked", true) }))
	}
	rep := map[string]interface{}{"check": "c14", "case": c.String()}
	var wantBytes []string
	for ei := 0; ei < c.e; ei++ {
		h0 := len(handled)
		var pan interface{}
		callDone := make(chan struct{})
		go func() {
			defer close(callDone)
			defer func() { pan = recover() }()
			var e *zerolog.Event
			if c.panicEntry(ei) {
				// Logger.Panic(): the event is written, the write error (if any) is reported, then the call panics
				defer func() {
					if r := recover(); r != nil {
						if _, ok := r.(string); !ok {
							panic(r)
						}
					}
				}()
				e = l.Panic().Int("i", ei)
			} else {
				e = l.WithLevel(c.levels[ei]).Int("i", ei)
			}
			if c.nested(ei) {
				// events that need several pooled objects at once (what an earlier failed write must not have disturbed)
				e = e.Dict("d", zerolog.Dict().Int("x", ei).Dict("in", zerolog.Dict().Bool("t", true))).Array("a", zerolog.Arr().Dict(zerolog.Dict().Int("y", ei)))
			}
			if n := c.pad(ei); n > 0 {
				e = e.Str("pad", strings.Repeat("x", n))
			}
			switch (c.salt + ei) % 4 {
			case 0:
				e.Msg("m")
			case 1:
				e.Msgf("%s", "m")
			case 2:
				e.MsgFunc(func() string { return "m" })
			default:
				e.Send()
			}
		}()
		if !c14await(callDone) {
			out.Violate("logging-call-never-returns", fmt.Sprintf("event %d: the logging call is parked on a lock inside zerolog with nothing left that could release it (%s); %s", ei, c14blockedWhere, c), rep)
			c14stuck = true
			return
		}
		if pan != nil {
			out.Violate("panic", fmt.Sprintf("logging call panicked: %v in %s", pan, c), rep)
			return
		}
		var parts []string
		if c.levels[ei] != zerolog.NoLevel {
			parts = append(parts, fmt.Sprintf(`"level":%q`, c.levels[ei].String()))
		}
		parts = append(parts, fmt.Sprintf(`"i":%d`, ei))
		if c.nested(ei) {
			parts = append(parts, fmt.Sprintf(`"d":{"x":%d,"in":{"t":true}},"a":[{"y":%d}]`, ei, ei))
		}
		if n := c.pad(ei); n > 0 {
			parts = append(parts, `"pad":"`+strings.Repeat("x", n)+`"`)
		}
		if c.salt%4 == 1 {
			parts = append(parts, `"hooked":true`)
		}
		if (c.salt+ei)%4 != 3 { // Send(): no message
			parts = append(parts, `"message":"m"`)
		}
		line := "{" + strings.Join(parts, ",") + "}\n"
		wantBytes = append(wantBytes, line)
		// expected error: first destination in order whose outcome != ok among those reached
		var wantErr string
		for di := 0; di < c.d; di++ {
			if c.single && di > 0 {
				break
			}
			if !reach(di, ei) {
				continue
			}
			o := c.matrix[ei*c.d+di]
			if o == oErr {
				// call index at that destination
				k := 0
				for e2 := 0; e2 < ei; e2++ {
					if reach(di, e2) {
						k++
					}
				}
				wantErr = fmt.Sprintf("dest%d-call%d", di, k)
				break
			}
			if o == oShort && !c.single {
				wantErr = io.ErrShortWrite.Error()
				break
			}
		}
		got := handled[h0:]
		switch {
		case wantErr == "" && len(got) != 0:
			out.Violate("handler-spurious", fmt.Sprintf("event %d: ErrorHandler called %d time(s) (%v) though no destination failed; %s", ei, len(got), got, c), rep)
		case wantErr != "" && len(got) != 1:
			out.Violate("handler-count", fmt.Sprintf("event %d: ErrorHandler called %d time(s) (%v), specified exactly once with %q; %s", ei, len(got), got, wantErr, c), rep)
		case wantErr != "" && got[0].Error() != wantErr:
			out.Violate("handler-error", fmt.Sprintf("event %d: ErrorHandler got %q, specified %q (first failing destination wins); %s", ei, got[0], wantErr, c), rep)
		case wantErr == io.ErrShortWrite.Error() && !errors.Is(got[0], io.ErrShortWrite):
			out.Violate("handler-error", fmt.Sprintf("event %d: short write not surfaced as io.ErrShortWrite; %s", ei, c), rep)
		}
	}
	for _, dw := range dests {
		out.Count("short_writes_len_minus_1", int64(dw.shorts[0]))
		out.Count("short_writes_0_bytes", int64(dw.shorts[1]))
		out.Count("short_writes_1_byte", int64(dw.shorts[2]))
		out.Count("short_writes_half", int64(dw.shorts[3]))
	}
	for _, dw := range decoys {
		if len(dw.calls) != 0 {
			out.Violate("dest-log-foreign", fmt.Sprintf("a destination of another MultiLevelWriter built on the same base received %d call(s); %s", len(dw.calls), c), rep)
		}
	}
	// per destination log
	for di := 0; di < c.d; di++ {
		if c.single && di > 0 {
			break
		}
		var want []destCall
		for ei := 0; ei < c.e; ei++ {
			if reach(di, ei) {
				want = append(want, destCall{c.levels[ei], wantBytes[ei], !c.plain[di] && !c.viaWrite})
			}
		}
		got := dests[di].calls
		ok := len(got) == len(want)
		for i := 0; ok && i < len(want); i++ {
			if got[i].p != want[i].p || got[i].byLW != want[i].byLW || (want[i].byLW && got[i].lvl != want[i].lvl) {
				ok = false
			}
		}
		if !ok {
			out.Violate("dest-log", fmt.Sprintf("destination %d received %v, specified %v; %s", di, got, want, c), rep)
		}
	}
}

var c14stuck bool
var c14blockedWhere string

// c14await waits for one logging call. "the logging call still returns normally": a call that is parked in a
// sync primitive inside zerolog on three looks in a row, while it is the only goroutine of the case, can never return
// (nobody else holds what it waits for). The wall clock only decides when to look.
func c14await(done chan struct{}) bool {
	parked := 0
	for i := 0; ; i++ {
		wait := 50 * time.Millisecond
		if i == 0 {
			wait = 2 * time.Second
		}
		select {
		case <-done:
			return true
		case <-time.After(wait):
		}
		found := false
		for _, g := range gstate.Snapshot() {
			if g.Has("main.c14run.func") && g.Has("github.com/rs/zerolog.") {
				found = true
				if gstate.Parked(g.State) && (strings.Contains(g.State, "Mutex") || strings.Contains(g.State, "semacquire") || strings.Contains(g.State, "sync.")) {
					parked++
					c14blockedWhere = g.State + ": " + firstLines(g.Text, 6)
				} else {
					parked = 0
				}
			}
		}
		if !found {
			parked = 0
		}
		if parked >= 3 {
			return false
		}
		if i > 600 {
			fmt.Println("HARNESS-INCONCLUSIVE c14: a logging call neither returned nor parked for 30 s")
			os.Exit(2)
		}
	}
}

// lineRec counts the writes it receives.
type lineRec struct {
	n    int
	fail map[int]bool // calls (0-based) that fail with "boom"
}

func (w *lineRec) Write(p []byte) (int, error) {
	w.n++
	if w.fail[w.n-1] {
		return 0, errors.New("boom")
	}
	return len(p), nil
}

// c14console: the package's own ConsoleWriter as one destination of a MultiLevelWriter (JSON build): a healthy fan-out
// reports nothing, a failing neighbour is reported with its own error, every destination gets every event once.
func c14console(out *evid.Out) {
	if isBinaryBuild() {
		return
	}
	type shape struct {
		name string
		mk   func(cons, js io.Writer) io.Writer
	}
	cw := func(o io.Writer) io.Writer { return zerolog.ConsoleWriter{Out: o, NoColor: true} }
	shapes := []shape{
		{"Multi(Console, json)", func(c, j io.Writer) io.Writer { return zerolog.MultiLevelWriter(cw(c), j) }},
		{"Multi(json, Console)", func(c, j io.Writer) io.Writer { return zerolog.MultiLevelWriter(j, cw(c)) }},
		{"Multi(Sync(Console), json)", func(c, j io.Writer) io.Writer { return zerolog.MultiLevelWriter(zerolog.SyncWriter(cw(c)), j) }},
		{"Multi(NewConsoleWriter, json)", func(c, j io.Writer) io.Writer {
			return zerolog.MultiLevelWriter(zerolog.NewConsoleWriter(func(w *zerolog.ConsoleWriter) { w.Out, w.NoColor = c, true }), j)
		}},
		{"Multi(Filtered(Console), json)", func(c, j io.Writer) io.Writer {
			return zerolog.MultiLevelWriter(&zerolog.FilteredLevelWriter{Writer: zerolog.LevelWriterAdapter{Writer: cw(c)}, Level: zerolog.TraceLevel}, j)
		}},
	}
	old := zerolog.ErrorHandler
	defer func() { zerolog.ErrorHandler = old }()
	for _, sh := range shapes {
		for failAt := -1; failAt < 3; failAt++ {
			cons, js := &lineRec{}, &lineRec{fail: map[int]bool{failAt: true}}
			var handled []string
			zerolog.ErrorHandler = func(err error) { handled = append(handled, err.Error()) }
			l := zerolog.New(sh.mk(cons, js))
			for i := 0; i < 3; i++ {
				l.Info().Int("i", i).Str("k", "v w").Msg("console fan-out")
			}
			want := []string{}
			if failAt >= 0 {
				want = []string{"boom"}
			}
			rep := map[string]interface{}{"check": "c14", "shape": sh.name, "failing_call_of_the_json_destination": failAt}
			if fmt.Sprint(handled) != fmt.Sprint(want) {
				out.Violate("console-destination:handler", fmt.Sprintf("%s, json destination failing at call %d: ErrorHandler got %v, specified %v", sh.name, failAt, handled, want), rep)
			}
			if cons.n != 3 || js.n != 3 {
				out.Violate("console-destination:delivery", fmt.Sprintf("%s: three events, the ConsoleWriter's Out got %d writes, the json destination %d", sh.name, cons.n, js.n), rep)
			}
			out.Count("console_destination_cases", 1)
			out.Evaluations++
		}
	}
}

func c14(args []string) int {
	f := mustFlags(args)
	out := evid.New("C14")
	if f.Shard == 0 {
		c14console(out)
		c14reentrant(out)
	}
	maxE := 3
	if f.Thorough() {
		maxE = 4
	}
	idx := 0
	// exhaustive matrices
	for d := 1; d <= 3; d++ {
		for e := 1; e <= maxE; e++ {
			n := 1
			for i := 0; i < d*e; i++ {
				n *= 3
			}
			for m := 0; m < n; m++ {
				idx++
				if !f.Mine(idx) {
					continue
				}
				r := rng.New(f.Seed, 0xc14, uint64(idx))
				c := &c14case{d: d, e: e, matrix: make([]int, d*e), filter: make([]int, d), plain: make([]bool, d), levels: make([]zerolog.Level, e)}
				x := m
				for i := range c.matrix {
					c.matrix[i] = x % 3
					x /= 3
				}
				// variant 0: no filters, all LevelWriters, info level; variant 1: random filters / plain writers / levels
				for variant := 0; variant < 2; variant++ {
					c.salt = m + variant
					for i := 0; i < d; i++ {
						c.filter[i], c.plain[i] = -99, false
						if variant == 1 {
							if r.Chance(1, 2) {
								c.filter[i] = r.Intn(7) - 2
							}
							c.plain[i] = r.Chance(1, 3)
						}
					}
					for i := 0; i < e; i++ {
						c.levels[i] = zerolog.InfoLevel
						if variant == 1 {
							c.levels[i] = zerolog.Level(r.Intn(8) - 1)
						}
					}
					c.single = false
					c.viaWrite = false
					c14run(out, c)
					out.Case(rng.HashStr(c.String()), true)
					out.Count("exhaustive_matrix_cases", 1)
					if variant == 0 && m%3 == 0 {
						c.viaWrite = true
						c14run(out, c)
						out.Case(rng.HashStr(c.String()), true)
						out.Count("write_path_cases", 1)
						c.viaWrite = false
					}
				}
				if d == 1 {
					c.single = true
					c14run(out, c)
					out.Case(rng.HashStr(c.String()), true)
					out.Count("single_writer_cases", 1)
				}
				if idx%7919 == 1 {
					out.Sample(c.String(), 5)
				}
			}
		}
	}
	// random larger
	nr := f.N(30000, 1000000)
	for i := 0; i < nr; i++ {
		idx++
		if !f.Mine(idx) {
			continue
		}
		r := rng.New(f.Seed, 0xc14b, uint64(i))
		d, e := 1+r.Intn(8), 1+r.Intn(20)
		c := &c14case{d: d, e: e, matrix: make([]int, d*e), filter: make([]int, d), plain: make([]bool, d), levels: make([]zerolog.Level, e)}
		for j := range c.matrix {
			c.matrix[j] = []int{0, 0, 0, 1, 2}[r.Intn(5)]
		}
		for j := 0; j < d; j++ {
			c.filter[j] = -99
			if r.Chance(1, 2) {
				c.filter[j] = r.Intn(10) - 2
			}
			c.plain[j] = r.Chance(1, 3)
		}
		for j := 0; j < e; j++ {
			c.levels[j] = zerolog.Level(r.Intn(9) - 1)
			if c.levels[j] == zerolog.Disabled {
				c.levels[j] = 42
			}
		}
		c.viaWrite = r.Chance(1, 4)
		if c.viaWrite {
			for j := range c.filter {
				c.filter[j] = -99
			}
		}
		c.salt = r.Intn(1000)
		c.bigPads = r.Chance(1, 20)
		c14run(out, c)
		out.Case(rng.HashStr(c.String()), true)
		out.Count("random_cases", 1)
	}
	if f.Shard == 0 {
		// ErrorHandler == nil: message on stderr, call returns, next event complete (observed in a child)
		self, _ := os.Executable()
		cmd := exec.Command(self, "c14-stderr-child")
		var se, so strings.Builder
		cmd.Stderr, cmd.Stdout = &se, &so
		err := cmd.Run()
		// what is printed for a nil ErrorHandler is not specified; the call must return and the next event be complete
		if err != nil || !strings.Contains(so.String(), "SECOND-OK") {
			out.Violate("stderr-path", fmt.Sprintf("nil ErrorHandler: err=%v stderr=%q stdout=%q", err, se.String(), so.String()), map[string]interface{}{"check": "c14"})
		}
		out.Count("stderr_child_cases", 1)
	}
	out.Exhaustive = true
	out.Extra["exhaustive_part"] = fmt.Sprintf("all {ok,error,short}^(d*e) matrices for d<=3, e<=%d, each in two configurations", maxE)
	out.Finish(f)
	return 0
}

type boomOnce struct{ n int }

func (b *boomOnce) Write(p []byte) (int, error) {
	b.n++
	if b.n == 1 {
		return 0, errors.New("boom")
	}
	if string(p) == "{\"level\":\"info\",\"message\":\"second\"}\n" {
		fmt.Println("SECOND-OK")
	}
	return len(p), nil
}

func c14StderrChild(args []string) int {
	zerolog.ErrorHandler = nil
	l := zerolog.New(&boomOnce{})
	l.Info().Msg("first")
	l.Info().Msg("second")
	return 0
}
