package main

import (
	"errors"
	"fmt"
	"sync"

	"github.com/rs/zerolog"
	"github.com/rs/zerolog/diode/verifh/evid"
)

// failW fails every Write with its own error (or accepts one byte less when short is set).
type failW struct {
	mu    sync.Mutex
	err   error
	short bool
	ok    bool
	n     int
}

func (w *failW) Write(p []byte) (int, error) {
	w.mu.Lock()
	w.n++
	w.mu.Unlock()
	switch {
	case w.ok:
		return len(p), nil
	case w.short:
		return len(p) - 1, nil
	}
	return 0, w.err
}

// c14reentrant: "ErrorHandler is invoked exactly once for that event with that error" also holds for an event whose
// write fails WHILE the handler of another event is running (a handler that records the failure through a second
// logger whose destination is down as well), and for events of several goroutines failing at the same moment
// (round 15: a package-level "already handling" flag dropped those calls).
func c14reentrant(out *evid.Out) {
	old := zerolog.ErrorHandler
	defer func() { zerolog.ErrorHandler = old }()
	errMain, errAudit := errors.New("main down"), errors.New("audit down")
	for _, multi := range []bool{false, true} {
		for auditMode := 0; auditMode < 3; auditMode++ { // 0: audit fails, 1: audit healthy, 2: audit short write (under Multi)
			if auditMode == 2 && !multi {
				continue // a short count without an error from a plain writer: not an error the statement speaks about
			}
			mainW := &failW{err: errMain}
			auditW := &failW{err: errAudit, ok: auditMode == 1, short: auditMode == 2}
			spare := &failW{ok: true}
			var main, audit zerolog.Logger
			if multi {
				main = zerolog.New(zerolog.MultiLevelWriter(spare, mainW))
				audit = zerolog.New(zerolog.MultiLevelWriter(auditW, spare))
			} else {
				main = zerolog.New(mainW)
				audit = zerolog.New(auditW)
			}
			var got []string
			zerolog.ErrorHandler = func(err error) {
				got = append(got, err.Error())
				if errors.Is(err, errMain) {
					audit.Error().Err(err).Msg("log pipeline failure")
				}
			}
			for i := 0; i < 3; i++ {
				main.Info().Int("i", i).Msg("x")
			}
			var want []string
			for i := 0; i < 3; i++ {
				want = append(want, "main down")
				switch {
				case auditMode == 0:
					want = append(want, "audit down")
				case auditMode == 2:
					want = append(want, "short write")
				}
			}
			if fmt.Sprint(got) != fmt.Sprint(want) {
				out.Violate("handler-reentrant", fmt.Sprintf("handler that logs through a second logger (multi=%v, audit destination mode %d): ErrorHandler saw %v, specified %v", multi, auditMode, got, want),
					map[string]interface{}{"check": "c14", "multi": multi, "audit_mode": auditMode})
			}
			if mainW.n != 3 || auditW.n != 3 {
				out.Violate("handler-reentrant", fmt.Sprintf("multi=%v audit mode %d: main destination got %d writes, audit destination %d, specified 3 and 3", multi, auditMode, mainW.n, auditW.n),
					map[string]interface{}{"check": "c14", "multi": multi, "audit_mode": auditMode})
			}
			out.Count("reentrant_handler_cases", 1)
			out.Evaluations++
		}
	}
	// G goroutines whose events all fail at the same time: one handler call per event
	for _, g := range []int{2, 8, 32} {
		const per = 200
		var mu sync.Mutex
		calls := map[string]int{}
		zerolog.ErrorHandler = func(err error) { mu.Lock(); calls[err.Error()]++; mu.Unlock() }
		var wg sync.WaitGroup
		start := make(chan struct{})
		for i := 0; i < g; i++ {
			w := &failW{err: fmt.Errorf("down-%d", i)}
			l := zerolog.New(w)
			wg.Add(1)
			go func() {
				defer wg.Done()
				<-start
				for k := 0; k < per; k++ {
					l.Info().Int("k", k).Msg("y")
				}
			}()
		}
		close(start)
		wg.Wait()
		for i := 0; i < g; i++ {
			if n := calls[fmt.Sprintf("down-%d", i)]; n != per {
				out.Violate("handler-concurrent", fmt.Sprintf("%d goroutines x %d failing events: ErrorHandler was called %d times for goroutine %d's destination, specified %d", g, per, n, i, per),
					map[string]interface{}{"check": "c14", "goroutines": g})
				break
			}
		}
		out.Count("concurrent_failing_events", int64(g*per))
		out.Evaluations++
	}
}
