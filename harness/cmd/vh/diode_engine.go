package main

import (
	"bytes"
	"fmt"
	"hash/crc32"
	"io"
	stdlog "log"
	"runtime"
	"strings"
	"sync"
	"sync/atomic"
	"time"

	"github.com/rs/zerolog/diode"
	"github.com/rs/zerolog/diode/internal/diodes"
	"github.com/rs/zerolog/diode/verifh/gstate"
	"github.com/rs/zerolog/diode/verifh/rng"
)

// ---- hook points ------------------------------------------------------------------------------------

var dPoints = []string{
	"m2o.set.claimed", "m2o.set.loaded", "m2o.set.collision", "m2o.set.casfailed", "m2o.set.stored",
	"m2o.next.enter", "m2o.next.swapped", "m2o.next.swapped.nil", "m2o.next.alerted",
	"waiter.cancel.woken", "waiter.cancel.broadcast", "waiter.set.beforebroadcast", "waiter.set.afterbroadcast",
	"waiter.next.done", "waiter.next.beforewait", "waiter.next.afterwait",
	"poller.next.done", "poller.next.empty",
	"diode.write.copied", "diode.poll.got", "diode.poll.written", "diode.close.cancelled", "diode.close.joined",
}

const (
	roleProducer = iota
	roleConsumer
	roleCancel
	roleCloser
)

var dPointIdx = map[string]int{}
var dPointRole []int

func init() {
	for i, p := range dPoints {
		dPointIdx[p] = i
		r := roleConsumer
		switch {
		case strings.HasPrefix(p, "m2o.set."), strings.HasPrefix(p, "waiter.set."), p == "diode.write.copied":
			r = roleProducer
		case strings.HasPrefix(p, "waiter.cancel."):
			r = roleCancel
		case strings.HasPrefix(p, "diode.close."):
			r = roleCloser
		}
		dPointRole = append(dPointRole, r)
	}
}

type dEvent struct {
	Pt   int
	Arg  uint64
	Role int
	G    int64
	T    int64
}

// directed pause: the k-th arrival of role at point waits until releasePt is seen (or the timeout,
// which only ends the delay).
type dPause struct {
	Pt        int
	K         int
	ReleasePt []int // any of these points (by any goroutine) releases
	OtherRole bool  // release on any event of a different role
	Timeout   time.Duration
	seen      int
	armed     chan struct{} // closed when the pause is entered
	release   chan struct{}
	entered   bool
	released  bool
	TimedOut  bool
}

type dCfg struct {
	P, W, Size int
	Poll       time.Duration
	Block      bool // the wrapped writer blocks until the verdict
	SlowW      int  // 0 none, 1 Gosched, 2 short sleep
	Paced      bool // a producer waits for its message to be delivered before the next write
	NoisePlan  []int
	Pauses     []*dPause
	Pad        int // 0 small, 1 >500B, 2 >64KiB payloads for some messages
	CloseEarly bool
	FaultW     int           // wrapped writer misbehaves: 1 = some messages are always refused with (0, error), 2 = some messages are always only half accepted
	Hookless   bool          // no hook events are recorded (race-detector runs: the hook's own mutex would add happens-before edges)
	Script     func(r *dRun) // directed scenario driver (replaces the default producers)
	Name       string
}

func (c *dCfg) String() string {
	mode := "waiter"
	if c.Poll > 0 {
		mode = fmt.Sprintf("poller(%v)", c.Poll)
	}
	return fmt.Sprintf("{%s P=%d W=%d size=%d %s block=%v slow=%d paced=%v pad=%d closeEarly=%v hookless=%v faultW=%d}", c.Name, c.P, c.W, c.Size, mode, c.Block, c.SlowW, c.Paced, c.Pad, c.CloseEarly, c.Hookless, c.FaultW)
}

type dWrite struct {
	Prod, I   int
	ID        string
	Sum       uint32
	Len       int
	Call, Ret int64
	Returned  bool
}

type dDelivery struct {
	ID          string
	Entry, Exit int64
	Sum         uint32
	Len         int
	Changed     bool
	Inflight    int32
}

// dRun is one execution and everything observed in it.
type dRun struct {
	cfg   *dCfg
	seed  *rng.R
	mu    sync.Mutex // protects trace, pauses bookkeeping
	trace []dEvent
	clk   int64
	live  int32 // 1 while this run accepts hook events
	dead  bool  // set under mu when the run is finished: the trace is frozen

	wmu    sync.Mutex
	writes []*dWrite

	dmu        sync.Mutex
	deliveries []dDelivery
	inflight   int32
	unblock    chan struct{}
	deliveredN int64

	alertSum   int64
	alertCalls int64

	dw          diode.Writer
	closeCalled int64 // clock value when Close was called (0 = not yet)
	closeRet    int64

	prodG sync.Map // goid -> producer index

	// verdicts
	sameID        string // consecutive deliveries of one id (livelock detection)
	sameN         int
	Livelock      string // set when the wrapped writer was offered the same message >= 2000 times in a row
	ProducerSpin  string // set when a producer reports >= 1000 collisions for one and the same claimed position
	spinArg       map[int64]uint64
	spinN         map[int64]int
	StallState    string // "", "parked", "polling", "inconclusive"
	StallDump     string
	Quiesced      bool
	ProducersHung string
	CloseHung     string
	emptyPolls    int64
	lastConsumer  int32 // last consumer-side point index
	readIndex     uint64
	maxClaimed    int64 // -1 = none
	nClaimed      int64
	cancelBcast   int32
}

var curRun atomic.Value // *dRun

var collisionLines int64

type collisionCounter struct{}

func (collisionCounter) Write(p []byte) (int, error) {
	atomic.AddInt64(&collisionLines, 1)
	return len(p), nil
}

func installDiodeHook() {
	stdlog.SetOutput(collisionCounter{})
	stdlog.SetFlags(0)
	diodes.SetVerifHook(func(point string, arg uint64) {
		r, _ := curRun.Load().(*dRun)
		if r == nil || atomic.LoadInt32(&r.live) == 0 {
			return
		}
		r.at(point, arg)
	})
}

func (r *dRun) at(point string, arg uint64) {
	pt, ok := dPointIdx[point]
	if !ok {
		return
	}
	role := dPointRole[pt]
	var g int64
	if role == roleProducer {
		g = goid()
	}
	t := atomic.AddInt64(&r.clk, 1)
	var wait *dPause
	r.mu.Lock()
	if r.dead {
		// the run is over and being judged; late events (e.g. from the waiter's cancel goroutine, which
		// outlives Close) must not touch the trace any more
		r.mu.Unlock()
		return
	}
	r.trace = append(r.trace, dEvent{pt, arg, role, g, t})
	switch point {
	case "m2o.set.claimed":
		r.nClaimed++
		if int64(arg) > r.maxClaimed {
			r.maxClaimed = int64(arg)
		}
	case "m2o.set.collision":
		// a correct producer claims a NEW position after a collision; one that keeps colliding on the same
		// position is spinning (it can only be freed by the consumer)
		if r.spinArg == nil {
			r.spinArg, r.spinN = map[int64]uint64{}, map[int64]int{}
		}
		if r.spinArg[g] == arg {
			r.spinN[g]++
			if r.spinN[g] == 1000 && r.ProducerSpin == "" {
				r.ProducerSpin = fmt.Sprintf("a producer collided 1000 times in a row on ring position %d without claiming a new one", arg)
			}
		} else {
			r.spinArg[g], r.spinN[g] = arg, 1
		}
	case "m2o.next.enter":
		r.readIndex = arg
	case "poller.next.empty":
		r.emptyPolls++
	case "waiter.cancel.broadcast":
		atomic.StoreInt32(&r.cancelBcast, 1)
	}
	if role == roleConsumer {
		atomic.StoreInt32(&r.lastConsumer, int32(pt))
	}
	for _, p := range r.cfg.Pauses {
		if p.entered && !p.released {
			rel := false
			for _, rp := range p.ReleasePt {
				if rp == pt {
					rel = true
				}
			}
			if p.OtherRole && role != dPointRole[p.Pt] {
				rel = true
			}
			if rel {
				p.released = true
				close(p.release)
			}
		}
		if p.Pt == pt && !p.entered {
			p.seen++
			if p.seen == p.K {
				p.entered = true
				close(p.armed)
				wait = p
			}
		}
	}
	r.mu.Unlock()
	if wait != nil {
		select {
		case <-wait.release:
		case <-time.After(wait.Timeout):
			r.mu.Lock()
			if !wait.released {
				wait.released = true
				wait.TimedOut = true
				close(wait.release)
			}
			r.mu.Unlock()
		}
		return
	}
	// seeded noise: per point, 0 = none, otherwise a probability class
	if r.cfg.NoisePlan != nil {
		switch cls := r.cfg.NoisePlan[pt]; cls {
		case 0:
		default:
			x := uint64(t)*0x9e3779b97f4a7c15 ^ uint64(pt)<<7 ^ arg
			x ^= x >> 29
			if int(x%8) < cls {
				if x&0x100 == 0 {
					for i := 0; i < int(x>>10&7)+1; i++ {
						runtime.Gosched()
					}
				} else {
					time.Sleep(time.Duration(x>>12%40+1) * time.Microsecond)
				}
			}
		}
	}
}

func newPause(pt string, k int, timeout time.Duration, otherRole bool, release ...string) *dPause {
	p := &dPause{Pt: dPointIdx[pt], K: k, Timeout: timeout, OtherRole: otherRole, armed: make(chan struct{}), release: make(chan struct{})}
	for _, r := range release {
		p.ReleasePt = append(p.ReleasePt, dPointIdx[r])
	}
	return p
}

// ---- wrapped writer -----------------------------------------------------------------------------------

type dRecW struct{ r *dRun }

func idOf(p []byte) string {
	if i := bytes.IndexByte(p, ' '); i > 0 {
		return string(p[:i])
	}
	if len(p) > 40 {
		return string(p[:40])
	}
	return string(p)
}

func (w dRecW) Write(p []byte) (int, error) {
	r := w.r
	entry := atomic.AddInt64(&r.clk, 1)
	infl := atomic.AddInt32(&r.inflight, 1)
	sum := crc32.ChecksumIEEE(p)
	id := idOf(p)
	n := len(p)
	if r.cfg.Block {
		<-r.unblock
	}
	switch r.cfg.SlowW {
	case 1:
		runtime.Gosched()
	case 2:
		time.Sleep(time.Duration(5+entry%30) * time.Microsecond)
	}
	changed := crc32.ChecksumIEEE(p) != sum || idOf(p) != id || len(p) != n
	atomic.AddInt32(&r.inflight, -1)
	exit := atomic.AddInt64(&r.clk, 1)
	r.dmu.Lock()
	if id == r.sameID {
		r.sameN++
	} else {
		r.sameID, r.sameN = id, 1
	}
	same := r.sameN
	if len(r.deliveries) < 20000 {
		r.deliveries = append(r.deliveries, dDelivery{id, entry, exit, sum, n, changed, infl})
	}
	seq := len(r.deliveries)
	r.dmu.Unlock()
	atomic.AddInt64(&r.deliveredN, 1)
	if same >= 2000 {
		// the consumer keeps offering the same message: a livelock. Break it by accepting, so the
		// process can go on; the run is flagged.
		r.dmu.Lock()
		r.Livelock = fmt.Sprintf("the wrapped writer was offered %s %d times in a row", id, same)
		r.dmu.Unlock()
		return len(p), nil
	}
	_ = seq
	// persistent per-message faults: every message whose checksum is divisible by 3 is refused
	// (FaultW 1) or only half accepted (FaultW 2), however often it is offered
	if sum%3 == 0 {
		switch r.cfg.FaultW {
		case 1:
			return 0, errWrapped
		case 2:
			if len(p) > 1 {
				return len(p) / 2, nil
			}
		}
	}
	return len(p), nil
}

var errWrapped = fmt.Errorf("wrapped writer: broken pipe")

func (r *dRun) payload(prod, i int) []byte {
	pad := 8
	switch r.cfg.Pad {
	case 1:
		if i%3 == 1 {
			pad = 600
		}
	case 2:
		if i%4 == 2 {
			pad = 66000
		} else if i%4 == 1 {
			pad = 600
		}
	}
	b := make([]byte, 0, pad+24)
	b = append(b, fmt.Sprintf("p%d-%d ", prod, i)...)
	for k := 0; k < pad; k++ {
		b = append(b, byte('a'+(k+i+prod)%26))
	}
	return append(b, '\n')
}

// write performs one recorded Write call.
func (r *dRun) write(prod, i int) {
	p := r.payload(prod, i)
	wr := &dWrite{Prod: prod, I: i, ID: idOf(p), Sum: crc32.ChecksumIEEE(p), Len: len(p)}
	r.wmu.Lock()
	wr.Call = atomic.AddInt64(&r.clk, 1)
	r.writes = append(r.writes, wr)
	r.wmu.Unlock()
	r.dw.Write(p)
	ret := atomic.AddInt64(&r.clk, 1)
	r.wmu.Lock()
	wr.Ret, wr.Returned = ret, true
	r.wmu.Unlock()
	// the caller may reuse its buffer after Write returns (zerolog's events are pooled)
	for k := range p {
		p[k] = '#'
	}
}

func (r *dRun) delivered(id string) bool {
	r.dmu.Lock()
	defer r.dmu.Unlock()
	for i := range r.deliveries {
		if r.deliveries[i].ID == id {
			return true
		}
	}
	return false
}

// consumerState inspects the goroutine running diode.Writer.poll.
func consumerState() (state string, dump string, found bool) {
	gs := gstate.Snapshot()
	for _, g := range gs {
		if g.Has("diode.Writer.poll") {
			return g.State, g.Text, true
		}
	}
	return "", "", false
}

// cancelGoroutineSeen: does this Waiter implementation have a cancel goroutine (hook points
// waiter.cancel.*) at all? Learned from the first run that shows one.
var hasCancelGoroutine int32 = -1

func cancelGoroutineSeen() bool {
	if v := atomic.LoadInt32(&hasCancelGoroutine); v >= 0 {
		return v == 1
	}
	for _, g := range gstate.Snapshot() {
		if g.Has("diodes.NewWaiter.func") {
			atomic.StoreInt32(&hasCancelGoroutine, 1)
			return true
		}
	}
	return false
}

func closerState() (state string, found bool) {
	for _, g := range gstate.Snapshot() {
		if g.Has("diode.Writer.Close") {
			return g.State, true
		}
	}
	return "", false
}

// progressDone: the consumer has passed every claimed position.
func (r *dRun) progressDone() bool {
	r.mu.Lock()
	defer r.mu.Unlock()
	return r.maxClaimed < 0 || int64(r.readIndex) > r.maxClaimed
}

// awaitQuiescence waits, after all producer calls returned, for either full progress or a stable
// blocked consumer. The wall-clock limit only yields "inconclusive".
func (r *dRun) awaitQuiescence(limit time.Duration) {
	deadline := time.Now().Add(limit)
	lastProgress := time.Now()
	var lastDelivered int64 = -1
	var lastRI uint64
	var pollsAtProgress int64
	for {
		if r.progressDone() {
			// one more look: the consumer may still be inside the wrapped writer; that is progress, not a stall
			r.Quiesced = true
			return
		}
		d := atomic.LoadInt64(&r.deliveredN)
		r.mu.Lock()
		ri, polls := r.readIndex, r.emptyPolls
		r.mu.Unlock()
		if d != lastDelivered || ri != lastRI {
			lastDelivered, lastRI, lastProgress, pollsAtProgress = d, ri, time.Now(), polls
		}
		if time.Since(lastProgress) > 2*time.Millisecond {
			if r.cfg.Poll == 0 {
				st, dump, found := consumerState()
				// parked waiting for a wake-up: on a condition variable or (channel-based waiter) in a select /
				// channel receive inside Waiter.Next; the wrapped writer's own blocking is excluded by frame
				if found && (st == "sync.Cond.Wait" || ((st == "select" || st == "chan receive") && strings.Contains(dump, "(*Waiter).Next") && !strings.Contains(dump, "(*dRun).at"))) && !r.progressDone() {
					r.StallState, r.StallDump = "parked", dump
					return
				}
			} else if polls-pollsAtProgress >= 1000 {
				r.StallState = "polling"
				return
			}
		}
		if time.Now().After(deadline) {
			r.StallState = "inconclusive"
			return
		}
		time.Sleep(100 * time.Microsecond)
	}
}

// runDiode executes one configuration.
func runDiode(cfg *dCfg, seed *rng.R) *dRun {
	r := &dRun{cfg: cfg, seed: seed, unblock: make(chan struct{}), maxClaimed: -1}
	curRun.Store(r)
	if !cfg.Hookless {
		atomic.StoreInt32(&r.live, 1)
	}
	r.dw = diode.NewWriter(dRecW{r}, cfg.Size, cfg.Poll, func(missed int) {
		atomic.AddInt64(&r.alertSum, int64(missed))
		atomic.AddInt64(&r.alertCalls, 1)
	})
	if cfg.Script != nil {
		cfg.Script(r)
	} else {
		var wg sync.WaitGroup
		start := make(chan struct{})
		for p := 0; p < cfg.P; p++ {
			wg.Add(1)
			go func(p int) {
				defer wg.Done()
				r.prodG.Store(goid(), p)
				<-start
				for i := 0; i < cfg.W; i++ {
					r.write(p, i)
					if cfg.Paced {
						id := fmt.Sprintf("p%d-%d", p, i)
						// pacing is best effort (outstanding messages are measured, not assumed): wait at
						// most ~5 ms for the delivery, e.g. when the consumer missed its wake-up
						for k := 0; k < 250 && !r.delivered(id); k++ {
							time.Sleep(20 * time.Microsecond)
						}
					}
				}
			}(p)
		}
		close(start)
		// join producers; a producer that cannot return is judged by goroutine state, not by the clock
		done := make(chan struct{})
		go func() { wg.Wait(); close(done) }()
		joined := false
		for waited := 0; waited < 300 && !joined; waited++ {
			select {
			case <-done:
				joined = true
			case <-time.After(10 * time.Millisecond):
				r.mu.Lock()
				spin := r.ProducerSpin
				r.mu.Unlock()
				if spin != "" {
					waited = 300
				}
			}
		}
		if !joined {
			hung := ""
			for _, g := range gstate.Snapshot() {
				if g.Has("main.(*dRun).write") {
					hung += fmt.Sprintf("[%s] ", g.State)
					if gstate.Parked(g.State) {
						r.ProducersHung = "parked"
						r.StallDump = g.Text
					}
				}
			}
			if r.ProducersHung == "" {
				r.ProducersHung = "inconclusive:" + hung
			}
		}
	}
	if cfg.Block {
		close(r.unblock)
	} else if cfg.Script == nil && !cfg.CloseEarly && r.ProducersHung == "" && !cfg.Hookless {
		r.awaitQuiescence(3 * time.Second)
	}
	r.finish()
	return r
}

// finish closes the writer (unless the script already did) and waits for Close to return.
func (r *dRun) finish() {
	if atomic.LoadInt64(&r.closeCalled) == 0 {
		r.doClose(3 * time.Second)
	}
	// wait for the waiter's cancel goroutine of this run to have broadcast (it outlives Close)
	if r.cfg.Poll == 0 && !r.cfg.Hookless && cancelGoroutineSeen() {
		for i := 0; i < 20000 && atomic.LoadInt32(&r.cancelBcast) == 0; i++ {
			time.Sleep(50 * time.Microsecond)
		}
	}
	atomic.StoreInt32(&r.live, 0)
	r.mu.Lock()
	r.dead = true
	r.mu.Unlock()
}

func (r *dRun) doClose(limit time.Duration) {
	atomic.StoreInt64(&r.closeCalled, atomic.AddInt64(&r.clk, 1))
	done := make(chan struct{})
	go func() {
		r.dw.Close()
		atomic.StoreInt64(&r.closeRet, atomic.AddInt64(&r.clk, 1))
		close(done)
	}()
	select {
	case <-done:
	case <-time.After(limit):
		cs, _, cf := consumerState()
		ks, kf := closerState()
		if kf && gstate.Parked(ks) && (!cf || gstate.Parked(cs)) {
			r.CloseHung = fmt.Sprintf("Close parked in [%s], consumer present=%v state [%s]", ks, cf, cs)
		} else {
			r.CloseHung = fmt.Sprintf("inconclusive: Close [%s] consumer [%s]", ks, cs)
		}
	}
}

// ---- derived facts -----------------------------------------------------------------------------------

// W and D return consistent copies of the recorded writes / deliveries (a producer that a broken tree left
// spinning may still be updating its record while the run is judged).
func (r *dRun) W() []*dWrite {
	r.wmu.Lock()
	defer r.wmu.Unlock()
	out := make([]*dWrite, len(r.writes))
	for i, w := range r.writes {
		c := *w
		out[i] = &c
	}
	return out
}

func (r *dRun) D() []dDelivery {
	r.dmu.Lock()
	defer r.dmu.Unlock()
	return append([]dDelivery(nil), r.deliveries...)
}

func (r *dRun) counts() (written, returned, delivered int, alerts int64) {
	ws := r.W()
	written = len(ws)
	for _, w := range ws {
		if w.Returned {
			returned++
		}
	}
	delivered = len(r.D())
	return written, returned, delivered, atomic.LoadInt64(&r.alertSum)
}

// maxOutstanding = max over the logical clock of (Write calls started - deliveries completed).
func (r *dRun) maxOutstanding() int {
	type ev struct {
		t int64
		d int
	}
	var evs []ev
	for _, w := range r.W() {
		evs = append(evs, ev{w.Call, +1})
	}
	for _, d := range r.D() {
		evs = append(evs, ev{d.Exit, -1})
	}
	// insertion sort by t (small slices)
	for i := 1; i < len(evs); i++ {
		for j := i; j > 0 && evs[j].t < evs[j-1].t; j-- {
			evs[j], evs[j-1] = evs[j-1], evs[j]
		}
	}
	cur, mx := 0, 0
	for _, e := range evs {
		cur += e.d
		if cur > mx {
			mx = cur
		}
	}
	return mx
}

// interleaving hash: the sequence of (role, point) events (args and producer identity left out).
func (r *dRun) interleavingHash() uint64 {
	h := uint64(0xcbf29ce484222325)
	for _, e := range r.trace {
		h ^= uint64(e.Pt) + 1
		h *= 0x100000001b3
	}
	return h
}

// windows observed in the trace (named situations the checks target).
func (r *dRun) windows() map[string]int {
	w := map[string]int{}
	sawBcastSinceEmpty := false
	for i, e := range r.trace {
		switch dPoints[e.Pt] {
		case "m2o.set.casfailed":
			w["cas_lost"]++
		case "m2o.set.collision":
			w["collision_with_newer_bucket"]++
		case "m2o.next.alerted":
			w["lap_alert"]++
		case "m2o.next.swapped.nil":
			sawBcastSinceEmpty = false
		case "waiter.set.afterbroadcast":
			sawBcastSinceEmpty = true
		case "waiter.next.beforewait":
			if sawBcastSinceEmpty {
				w["broadcast_between_empty_trynext_and_wait"]++
			}
		case "diode.close.cancelled":
			// cancel while the consumer is between an empty TryNext and its done-check/wait
			for j := i - 1; j >= 0; j-- {
				if r.trace[j].Role == roleConsumer {
					if dPoints[r.trace[j].Pt] == "m2o.next.swapped.nil" || dPoints[r.trace[j].Pt] == "m2o.next.enter" {
						w["cancel_during_trynext"]++
					}
					break
				}
			}
		}
	}
	if r.nClaimed > int64(len(r.W())) {
		w["position_retried"]++
	}
	for _, p := range r.cfg.Pauses {
		if p.entered {
			w["directed_pause_entered"]++
			if p.TimedOut {
				w["directed_pause_timed_out"]++
			}
		}
	}
	return w
}

func (r *dRun) describe() map[string]interface{} {
	wr, ret, del, al := r.counts()
	var tr []string
	for i, e := range r.trace {
		if i >= 400 {
			tr = append(tr, fmt.Sprintf("...(%d more events)", len(r.trace)-i))
			break
		}
		s := fmt.Sprintf("%s(%d)", dPoints[e.Pt], e.Arg)
		if e.Role == roleProducer {
			if p, ok := r.prodG.Load(e.G); ok {
				s = fmt.Sprintf("P%d:%s", p, s)
			}
		}
		tr = append(tr, s)
	}
	var dl []string
	for _, d := range r.D() {
		dl = append(dl, d.ID)
	}
	return map[string]interface{}{"config": r.cfg.String(), "writes_started": wr, "writes_returned": ret, "delivered": del, "alert_sum": al, "positions_claimed": r.nClaimed,
		"consumer_readIndex": r.readIndex, "deliveries": strings.Join(dl, " "), "hook_trace": strings.Join(tr, " ")}
}

var _ = io.Discard
