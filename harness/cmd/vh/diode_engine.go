package main

import (
	"bytes"
	"fmt"
	"hash/crc32"
	"io"
	stdlog "log"
	"runtime"
	"strings"
	"sync"
	"sync/atomic"
	"time"

	"github.com/rs/zerolog/diode"
	"github.com/rs/zerolog/diode/internal/diodes"
	"github.com/rs/zerolog/diode/verifh/gstate"
	"github.com/rs/zerolog/diode/verifh/rng"
)

// ---- hook points ------------------------------------------------------------------------------------

var dPoints = []string{
	"m2o.set.claimed", "m2o.set.loaded", "m2o.set.collision", "m2o.set.casfailed", "m2o.set.stored",
	"m2o.next.enter", "m2o.next.swapped", "m2o.next.swapped.nil", "m2o.next.alerted",
	"waiter.set.beforebroadcast", "waiter.set.afterbroadcast",
	"waiter.next.done", "waiter.next.beforewait", "waiter.next.afterwait",
	"poller.next.done", "poller.next.empty",
	"diode.write.copied", "diode.poll.got", "diode.poll.written", "diode.close.cancelled", "diode.close.joined",
}

const (
	roleProducer = iota
	roleConsumer
	roleCancel
	roleCloser
)

var dPointIdx = map[string]int{}
var dPointRole []int

func init() {
	for i, p := range dPoints {
		dPointIdx[p] = i
		r := roleConsumer
		switch {
		case strings.HasPrefix(p, "m2o.set."), strings.HasPrefix(p, "waiter.set."), p == "diode.write.copied":
			r = roleProducer
		case strings.HasPrefix(p, "waiter.cancel."):
			r = roleCancel
		case strings.HasPrefix(p, "diode.close."):
			r = roleCloser
		}
		dPointRole = append(dPointRole, r)
	}
}

type dEvent struct {
	Pt   int
	Arg  uint64
	Role int
	G    int64
	T    int64
}

// directed pause: the k-th arrival of role at point waits until releasePt is seen (or the timeout,
// which only ends the delay).
type dPause struct {
	Pt        int
	K         int
	ReleasePt []int // any of these points (by any goroutine) releases
	OtherRole bool  // release on any event of a different role
	UntilJoin bool  // released by the engine once every producer call has returned (the point is held across whole laps)
	Timeout   time.Duration
	seen      int
	armed     chan struct{} // closed when the pause is entered
	release   chan struct{}
	entered   bool
	released  bool
	TimedOut  bool
}

type dCfg struct {
	P, W, Size int
	Poll       time.Duration
	Block      bool // the wrapped writer blocks until the verdict
	SlowW      int  // 0 none, 1 Gosched, 2 short sleep
	Paced      bool // a producer waits for its message to be delivered before the next write
	NoisePlan  []int
	Pauses     []*dPause
	Pad        int // 0 small, 1 >500B, 2 >64KiB payloads for some messages
	CloseEarly bool
	FaultW     int           // wrapped writer misbehaves: 1 = some messages are always refused with (0, error), 2 = some messages are always only half accepted
	Hookless   bool          // no hook events are recorded (race-detector runs: the hook's own mutex would add happens-before edges)
	NilAlerter bool          // NewWriter gets a nil alerter (lapping must still work)
	ReAlerter  bool          // the alerter logs through the same diode writer (the documented usage pattern), first 4 alerts
	LateWrites bool          // every producer makes one more Write while Close runs and one after Close returned
	CloseTwice int           // 1: Close is called a second time after it returned; 2: two goroutines call Close concurrently
	Procs      int           // GOMAXPROCS for this run (0 = leave)
	EmptyAt    int           // 1+i: message i of producer 0 is a zero-length payload (Write(nil) or Write([]byte{}): legal for an io.Writer); 0 = none
	Script     func(r *dRun) // directed scenario driver (replaces the default producers)
	Name       string
}

func (c *dCfg) String() string {
	mode := "waiter"
	if c.Poll > 0 {
		mode = fmt.Sprintf("poller(%v)", c.Poll)
	}
	return fmt.Sprintf("{%s P=%d W=%d size=%d %s block=%v slow=%d paced=%v pad=%d closeEarly=%v hookless=%v faultW=%d nilAlerter=%v reAlerter=%v lateWrites=%v closeTwice=%d procs=%d emptyAt=%d}", c.Name, c.P, c.W, c.Size, mode, c.Block, c.SlowW, c.Paced, c.Pad, c.CloseEarly, c.Hookless, c.FaultW, c.NilAlerter, c.ReAlerter, c.LateWrites, c.CloseTwice, c.Procs, c.EmptyAt)
}

type dWrite struct {
	Prod, I   int
	ID        string
	Sum       uint32
	Len       int
	Call, Ret int64
	Returned  bool
}

type dDelivery struct {
	ID          string
	Entry, Exit int64
	Sum         uint32
	Len         int
	Changed     bool
	Inflight    int32
	AfterWClose bool // the wrapped writer's Close had already been called
}

// dRun is one execution and everything observed in it.
type dRun struct {
	cfg   *dCfg
	seed  *rng.R
	mu    sync.Mutex // protects trace, pauses bookkeeping
	trace []dEvent
	clk   int64
	live  int32 // 1 while this run accepts hook events
	dead  bool  // set under mu when the run is finished: the trace is frozen

	wmu    sync.Mutex
	writes []*dWrite

	dmu        sync.Mutex
	deliveries []dDelivery
	inflight   int32
	unblock    chan struct{}
	deliveredN int64

	alertSum   int64
	alertCalls int64

	dw          diode.Writer
	closeCalled int64 // clock value when Close was called (0 = not yet)
	closeRet    int64

	prodG sync.Map // goid -> producer index

	// verdicts
	sameID            string // consecutive deliveries of one id (livelock detection)
	sameN             int
	Livelock          string // set when the wrapped writer was offered the same message >= 2000 times in a row
	ProducerSpin      string // set when a producer reports >= 1000 collisions for one and the same claimed position
	spinArg           map[int64]uint64
	spinN             map[int64]int
	StallState        string // "", "parked", "polling", "inconclusive"
	StallDump         string
	MidRunStall       bool // the stall was observed in the middle of a paced single-producer run
	Quiesced          bool
	ProducersHung     string
	CloseHung         string
	emptyPolls        int64
	lastConsumer      int32 // last consumer-side point index
	readIndex         uint64
	maxClaimed        int64 // -1 = none
	nClaimed          int64
	cancelBcast       int32
	attempts          map[int64]int // per producer goroutine: loaded/collision/casfailed events since its last diode.write.copied
	cancelSeen        bool
	entersAfterCancel int64
	consumerDone      bool
	IgnoresCancel     string // set when the consumer keeps calling TryNext long after cancellation
	WritePanic        string
	wrappedClosed     int64 // clock value of the wrapped writer's Close (0 = not called)
	wrappedCloses     int32
	closeRets         int32
}

var curRun atomic.Value // *dRun

var collisionLines int64

type collisionCounter struct{}

func (collisionCounter) Write(p []byte) (int, error) {
	atomic.AddInt64(&collisionLines, 1)
	return len(p), nil
}

func installDiodeHook() {
	stdlog.SetOutput(collisionCounter{})
	stdlog.SetFlags(0)
	diodes.SetVerifHook(func(point string, arg uint64) {
		r, _ := curRun.Load().(*dRun)
		if r == nil || atomic.LoadInt32(&r.live) == 0 {
			return
		}
		r.at(point, arg)
	})
}

func (r *dRun) at(point string, arg uint64) {
	pt, ok := dPointIdx[point]
	if !ok {
		return
	}
	role := dPointRole[pt]
	var g int64
	if role == roleProducer {
		g = goid()
	}
	t := atomic.AddInt64(&r.clk, 1)
	var wait *dPause
	r.mu.Lock()
	if r.dead {
		// the run is over and being judged; late events (e.g. from the waiter's cancel goroutine, which
		// outlives Close) must not touch the trace any more
		r.mu.Unlock()
		return
	}
	r.trace = append(r.trace, dEvent{pt, arg, role, g, t})
	switch point {
	case "m2o.set.claimed":
		r.nClaimed++
		if int64(arg) > r.maxClaimed {
			r.maxClaimed = int64(arg)
		}
	case "m2o.set.collision":
		// a correct producer claims a NEW position after a collision; one that keeps colliding on the same
		// position is spinning (it can only be freed by the consumer)
		if r.spinArg == nil {
			r.spinArg, r.spinN = map[int64]uint64{}, map[int64]int{}
		}
		if r.spinArg[g] == arg {
			r.spinN[g]++
			if r.spinN[g] == 1000 && r.ProducerSpin == "" {
				r.ProducerSpin = fmt.Sprintf("a producer collided 1000 times in a row on ring position %d without claiming a new one", arg)
			}
		} else {
			r.spinArg[g], r.spinN[g] = arg, 1
		}
	case "m2o.next.enter":
		r.readIndex = arg
		if r.cancelSeen && !r.consumerDone {
			r.entersAfterCancel++
			// after cancellation a consumer drains what is left (at most one TryNext per claimed position,
			// plus the empty one that ends it)
			if r.entersAfterCancel > r.nClaimed+200 && r.IgnoresCancel == "" {
				r.IgnoresCancel = fmt.Sprintf("the consumer called TryNext %d times after Close cancelled it (%d ring positions were ever claimed) and has not stopped", r.entersAfterCancel, r.nClaimed)
			}
		}
	case "diode.close.cancelled":
		r.cancelSeen = true
	case "waiter.next.done", "poller.next.done":
		r.consumerDone = true
	case "diode.write.copied":
		if r.attempts != nil {
			r.attempts[g] = 0
		}
	case "poller.next.empty":
		r.emptyPolls++
	}
	if point == "m2o.set.loaded" || point == "m2o.set.collision" || point == "m2o.set.casfailed" {
		// every retry inside one Set call is caused by a store or a take of somebody else, and there are at most
		// P*W of each: a producer far beyond that is spinning, whatever positions it visits
		if r.attempts == nil {
			r.attempts = map[int64]int{}
		}
		r.attempts[g]++
		if r.attempts[g] == 1000+3*r.cfg.P*(r.cfg.W+2) && r.ProducerSpin == "" {
			r.ProducerSpin = fmt.Sprintf("a producer made %d attempts inside one Write without storing its message (last position %d)", r.attempts[g], arg)
		}
	}
	if role == roleConsumer {
		atomic.StoreInt32(&r.lastConsumer, int32(pt))
	}
	for _, p := range r.cfg.Pauses {
		if p.entered && !p.released {
			rel := false
			for _, rp := range p.ReleasePt {
				if rp == pt {
					rel = true
				}
			}
			if p.OtherRole && role != dPointRole[p.Pt] {
				rel = true
			}
			if rel {
				p.released = true
				close(p.release)
			}
		}
		if p.Pt == pt && !p.entered {
			p.seen++
			if p.seen == p.K {
				p.entered = true
				close(p.armed)
				wait = p
			}
		}
	}
	r.mu.Unlock()
	if wait != nil {
		select {
		case <-wait.release:
		case <-time.After(wait.Timeout):
			r.mu.Lock()
			if !wait.released && !r.dead {
				wait.released = true
				wait.TimedOut = true
				close(wait.release)
			}
			r.mu.Unlock()
		}
		return
	}
	// seeded noise: per point, 0 = none, otherwise a probability class
	if r.cfg.NoisePlan != nil {
		switch cls := r.cfg.NoisePlan[pt]; cls {
		case 0:
		default:
			x := uint64(t)*0x9e3779b97f4a7c15 ^ uint64(pt)<<7 ^ arg
			x ^= x >> 29
			if int(x%8) < cls {
				if x&0x100 == 0 {
					for i := 0; i < int(x>>10&7)+1; i++ {
						runtime.Gosched()
					}
				} else {
					time.Sleep(time.Duration(x>>12%40+1) * time.Microsecond)
				}
			}
		}
	}
}

func newPause(pt string, k int, timeout time.Duration, otherRole bool, release ...string) *dPause {
	p := &dPause{Pt: dPointIdx[pt], K: k, Timeout: timeout, OtherRole: otherRole, armed: make(chan struct{}), release: make(chan struct{})}
	for _, r := range release {
		p.ReleasePt = append(p.ReleasePt, dPointIdx[r])
	}
	return p
}

// ---- wrapped writer -----------------------------------------------------------------------------------

type dRecW struct{ r *dRun }

func idOf(p []byte) string {
	if len(p) == 0 {
		return "<empty>" // the zero-length message of the run (at most one)
	}
	if i := bytes.IndexByte(p, ' '); i > 0 {
		return string(p[:i])
	}
	if len(p) > 40 {
		return string(p[:40])
	}
	return string(p)
}

func (w dRecW) Write(p []byte) (int, error) {
	r := w.r
	entry := atomic.AddInt64(&r.clk, 1)
	afterClose := atomic.LoadInt64(&r.wrappedClosed) != 0
	infl := atomic.AddInt32(&r.inflight, 1)
	sum := crc32.ChecksumIEEE(p)
	id := idOf(p)
	n := len(p)
	if r.cfg.Block {
		<-r.unblock
	}
	switch r.cfg.SlowW {
	case 1:
		runtime.Gosched()
	case 2:
		time.Sleep(time.Duration(5+entry%30) * time.Microsecond)
	}
	changed := crc32.ChecksumIEEE(p) != sum || idOf(p) != id || len(p) != n
	atomic.AddInt32(&r.inflight, -1)
	exit := atomic.AddInt64(&r.clk, 1)
	r.dmu.Lock()
	if id == r.sameID {
		r.sameN++
	} else {
		r.sameID, r.sameN = id, 1
	}
	same := r.sameN
	if len(r.deliveries) < 20000 {
		r.deliveries = append(r.deliveries, dDelivery{id, entry, exit, sum, n, changed, infl, afterClose})
	}
	seq := len(r.deliveries)
	r.dmu.Unlock()
	atomic.AddInt64(&r.deliveredN, 1)
	if same >= 2000 {
		// the consumer keeps offering the same message: a livelock. Break it by accepting, so the
		// process can go on; the run is flagged.
		r.dmu.Lock()
		r.Livelock = fmt.Sprintf("the wrapped writer was offered %s %d times in a row", id, same)
		r.dmu.Unlock()
		return len(p), nil
	}
	_ = seq
	// persistent per-message faults: every message whose checksum is divisible by 3 is refused
	// (FaultW 1) or only half accepted (FaultW 2), however often it is offered
	if sum%3 == 0 {
		switch r.cfg.FaultW {
		case 1:
			return 0, errWrapped
		case 2:
			if len(p) > 1 {
				return len(p) / 2, nil
			}
		}
	}
	return len(p), nil
}

// Close makes the wrapped writer an io.Closer: diode.Writer.Close closes it after the drain.
func (w dRecW) Close() error {
	atomic.CompareAndSwapInt64(&w.r.wrappedClosed, 0, atomic.AddInt64(&w.r.clk, 1))
	atomic.AddInt32(&w.r.wrappedCloses, 1)
	return nil
}

var errWrapped = fmt.Errorf("wrapped writer: broken pipe")

func (r *dRun) payload(prod, i int) []byte {
	if prod == 0 && r.cfg.EmptyAt == i+1 {
		if i%2 == 0 {
			return nil
		}
		return []byte{}
	}
	pad := 8
	switch r.cfg.Pad {
	case 1:
		if i%3 == 1 {
			pad = 600
		}
	case 2:
		if i%4 == 2 {
			pad = 66000
		} else if i%4 == 1 {
			pad = 600
		}
	}
	b := make([]byte, 0, pad+24)
	b = append(b, fmt.Sprintf("p%d-%d ", prod, i)...)
	if r.cfg.Pad == 3 {
		// payloads whose total length is exactly the capacity of a pooled buffer (500 fresh; 512, 576 after growth) or
		// one byte off, followed by short ones
		want := []int{500, 100, 512, 499, 501, 576, 60}[(i+prod)%7]
		pad = want - len(b) - 1
		if pad < 0 {
			pad = 0
		}
	}
	for k := 0; k < pad; k++ {
		b = append(b, byte('a'+(k+i+prod)%26))
	}
	return append(b, '\n')
}

// write performs one recorded Write call.
func (r *dRun) write(prod, i int) {
	p := r.payload(prod, i)
	wr := &dWrite{Prod: prod, I: i, ID: idOf(p), Sum: crc32.ChecksumIEEE(p), Len: len(p)}
	r.wmu.Lock()
	wr.Call = atomic.AddInt64(&r.clk, 1)
	r.writes = append(r.writes, wr)
	r.wmu.Unlock()
	func() {
		defer func() {
			if x := recover(); x != nil {
				r.wmu.Lock()
				if r.WritePanic == "" {
					r.WritePanic = fmt.Sprintf("Write(%s) panicked: %v", wr.ID, x)
				}
				r.wmu.Unlock()
			}
		}()
		r.dw.Write(p)
	}()
	ret := atomic.AddInt64(&r.clk, 1)
	r.wmu.Lock()
	wr.Ret, wr.Returned = ret, true
	r.wmu.Unlock()
	// the caller may reuse its buffer after Write returns (zerolog's events are pooled)
	for k := range p {
		p[k] = '#'
	}
}

func (r *dRun) delivered(id string) bool {
	r.dmu.Lock()
	defer r.dmu.Unlock()
	for i := range r.deliveries {
		if r.deliveries[i].ID == id {
			return true
		}
	}
	return false
}

// harnessFrame: the goroutine is blocked inside the harness's own instrumentation (a directed pause, the hook's
// mutex, the recording writer), not inside the code under test.
func harnessFrame(dump string) bool {
	return strings.Contains(dump, "(*dRun).at") || strings.Contains(dump, "main.dRecW.Write")
}

// consumerState inspects the goroutine running diode.Writer.poll.
func consumerState() (state string, dump string, found bool) {
	gs := gstate.Snapshot()
	for _, g := range gs {
		if g.Has("diode.Writer.poll") {
			return g.State, g.Text, true
		}
	}
	return "", "", false
}

func closerState() (state string, dump string, found bool) {
	for _, g := range gstate.Snapshot() {
		if g.Has("diode.Writer.Close") {
			return g.State, g.Text, true
		}
	}
	return "", "", false
}

// diodeTainted: an earlier run of this process left goroutines behind (a hung Close, a hung producer or
// consumer). Goroutine-state oracles would look at the wrong goroutines from then on, so the remaining runs of
// this process are skipped (and counted).
var diodeTainted bool

// progressDone: the consumer has passed every claimed position.
func (r *dRun) progressDone() bool {
	r.mu.Lock()
	defer r.mu.Unlock()
	return r.maxClaimed < 0 || int64(r.readIndex) > r.maxClaimed
}

// awaitQuiescence waits, after all producer calls returned, for either full progress or a stable
// blocked consumer. It returns "" (full progress), "parked", "polling" or "inconclusive" (the wall-clock
// limit only ever yields "inconclusive").
func (r *dRun) awaitQuiescence(limit time.Duration) (state, dump string) {
	deadline := time.Now().Add(limit)
	lastProgress := time.Now()
	var lastDelivered int64 = -1
	var lastRI uint64
	var pollsAtProgress int64
	lastTrace := -1
	spinLooks, spinTrace := 0, -1
	var spinPolls int64 = -1
	for {
		if r.progressDone() {
			return "", ""
		}
		d := atomic.LoadInt64(&r.deliveredN)
		r.mu.Lock()
		ri, polls, tl := r.readIndex, r.emptyPolls, len(r.trace)
		r.mu.Unlock()
		if d != lastDelivered || ri != lastRI {
			lastDelivered, lastRI, lastProgress, pollsAtProgress = d, ri, time.Now(), polls
		}
		if time.Since(lastProgress) > 2*time.Millisecond {
			st, dump, found := consumerState()
			if found && gstate.Parked(st) && !harnessFrame(dump) && !r.progressDone() {
				// parked waiting for a wake-up. The canonical places (the waiter's condition variable / signal
				// channel) are stable by construction: a completed Set has readied the reader before it returned.
				// Anywhere else (a mutex, a semaphore) the state is confirmed by a second look with no hook event
				// in between.
				canonical := st == "sync.Cond.Wait" || ((st == "select" || st == "chan receive") && strings.Contains(dump, "(*Waiter).Next"))
				if canonical || (tl == lastTrace) {
					return "parked", dump
				}
				lastTrace = tl
				time.Sleep(5 * time.Millisecond)
				continue
			}
			if r.cfg.Poll > 0 && polls-pollsAtProgress >= 1000 {
				return "polling", ""
			}
			// a consumer that is on the processor look after look, inside the poller, without ever reaching a hook point
			// (no poll, no delivery) while claimed positions remain: it spins where it should sleep and poll again
			if found && r.cfg.Poll > 0 && (st == "running" || st == "runnable") && strings.Contains(dump, "(*Poller).Next") && tl == spinTrace && polls == spinPolls {
				spinLooks++
				if spinLooks >= 400 {
					return "spinning", dump
				}
			} else {
				spinLooks, spinTrace, spinPolls = 0, tl, polls
			}
			if !found && !r.progressDone() && atomic.LoadInt64(&r.closeCalled) == 0 {
				// there is no consumer goroutine any more, although Close has not been called and claimed positions
				// remain: nothing but a Close can ever deliver them. Confirmed by a second look with no hook event between.
				if tl == lastTrace {
					return "exited", ""
				}
				lastTrace = tl
				time.Sleep(5 * time.Millisecond)
				continue
			}
		}
		if time.Now().After(deadline) {
			return "inconclusive", ""
		}
		time.Sleep(100 * time.Microsecond)
	}
}

func (r *dRun) settle(limit time.Duration) {
	st, dump := r.awaitQuiescence(limit)
	if st == "" {
		r.Quiesced = true
		return
	}
	r.StallState, r.StallDump = st, dump
}

// join waits for the producer goroutines; one that cannot return is judged by goroutine state (parked) or by
// the hook counters (spinning), never by the clock alone.
func (r *dRun) join(wg *sync.WaitGroup) {
	done := make(chan struct{})
	go func() { wg.Wait(); close(done) }()
	joined := false
	for waited := 0; waited < 300 && !joined; waited++ {
		select {
		case <-done:
			joined = true
		case <-time.After(10 * time.Millisecond):
			r.mu.Lock()
			spin := r.ProducerSpin
			r.mu.Unlock()
			if spin != "" {
				waited = 300
			}
		}
	}
	if !joined {
		diodeTainted = true
		hung := ""
		for _, g := range gstate.Snapshot() {
			if g.Has("main.(*dRun).write") {
				hung += fmt.Sprintf("[%s] ", g.State)
				if gstate.Parked(g.State) && !harnessFrame(g.Text) {
					r.ProducersHung = "parked"
					r.StallDump = g.Text
				}
			}
		}
		if r.ProducersHung == "" {
			r.ProducersHung = "inconclusive:" + hung
		}
	}
}

// runDiode executes one configuration.
func runDiode(cfg *dCfg, seed *rng.R) *dRun {
	r := &dRun{cfg: cfg, seed: seed, unblock: make(chan struct{}), maxClaimed: -1}
	if cfg.Procs > 0 {
		defer runtime.GOMAXPROCS(runtime.GOMAXPROCS(cfg.Procs))
	}
	curRun.Store(r)
	if !cfg.Hookless {
		atomic.StoreInt32(&r.live, 1)
	}
	var alerter diode.Alerter
	if !cfg.NilAlerter {
		alerter = func(missed int) {
			atomic.AddInt64(&r.alertSum, int64(missed))
			k := atomic.AddInt64(&r.alertCalls, 1)
			if cfg.ReAlerter && k <= 4 {
				// the alerter runs on the consumer goroutine, inside TryNext: logging through the same diode
				// must neither block nor deadlock
				r.prodG.Store(goid(), 90)
				r.write(90, int(k))
			}
		}
	}
	r.dw = diode.NewWriter(dRecW{r}, cfg.Size, cfg.Poll, alerter)
	if cfg.Script != nil {
		cfg.Script(r)
	} else {
		var wg sync.WaitGroup
		start := make(chan struct{})
		for p := 0; p < cfg.P; p++ {
			wg.Add(1)
			go func(p int) {
				defer wg.Done()
				r.prodG.Store(goid(), p)
				<-start
				for i := 0; i < cfg.W; i++ {
					r.write(p, i)
					if cfg.Paced {
						id := fmt.Sprintf("p%d-%d", p, i)
						// pacing is best effort (outstanding messages are measured, not assumed): wait at
						// most ~5 ms for the delivery, e.g. when the consumer missed its wake-up
						for k := 0; k < 250 && !r.delivered(id); k++ {
							time.Sleep(20 * time.Microsecond)
						}
						if cfg.P == 1 && !cfg.Hookless && !cfg.Block && !r.delivered(id) {
							// the only producer is waiting and nothing else will happen: this is a quiescent point
							// in the middle of the run (a later Write must not be needed to get the message out)
							if st, dump := r.awaitQuiescence(500 * time.Millisecond); st == "parked" || st == "polling" {
								r.StallState, r.StallDump = st, dump
								r.MidRunStall = true
								return
							}
						}
					}
				}
			}(p)
		}
		close(start)
		r.join(&wg)
		for _, p := range cfg.Pauses {
			if p.UntilJoin {
				p.Release(r)
			}
		}
	}
	if cfg.Block {
		close(r.unblock)
	} else if cfg.Script == nil && !cfg.CloseEarly && r.ProducersHung == "" && !cfg.Hookless && r.StallState == "" {
		r.settle(3 * time.Second)
	}
	if cfg.LateWrites && cfg.Script == nil && r.ProducersHung == "" {
		// one more Write per producer while Close runs, and one after it returned
		var wg sync.WaitGroup
		closing := make(chan struct{})
		for p := 0; p < cfg.P; p++ {
			wg.Add(1)
			go func(p int) {
				defer wg.Done()
				r.prodG.Store(goid(), p)
				<-closing
				r.write(p, cfg.W)
			}(p)
		}
		close(closing)
		r.doClose(3 * time.Second)
		if r.CloseHung == "" {
			for p := 0; p < cfg.P; p++ {
				wg.Add(1)
				go func(p int) {
					defer wg.Done()
					r.prodG.Store(goid(), p)
					r.write(p, cfg.W+1)
				}(p)
			}
		}
		r.join(&wg)
	}
	r.finish()
	return r
}

// finish closes the writer (unless the script already did) and waits for Close to return.
func (r *dRun) finish() {
	if atomic.LoadInt64(&r.closeCalled) == 0 {
		r.doClose(3 * time.Second)
	}
	if r.CloseHung == "" && r.cfg.CloseTwice == 1 {
		r.doClose(3 * time.Second)
	}
	atomic.StoreInt32(&r.live, 0)
	r.mu.Lock()
	r.dead = true
	r.mu.Unlock()
}

func (r *dRun) doClose(limit time.Duration) {
	first := atomic.CompareAndSwapInt64(&r.closeCalled, 0, atomic.AddInt64(&r.clk, 1))
	n := 1
	if first && r.cfg.CloseTwice == 2 {
		n = 2
	}
	done := make(chan struct{}, n)
	for i := 0; i < n; i++ {
		go func() {
			r.dw.Close()
			atomic.CompareAndSwapInt64(&r.closeRet, 0, atomic.AddInt64(&r.clk, 1))
			atomic.AddInt32(&r.closeRets, 1)
			done <- struct{}{}
		}()
	}
	timeout := time.After(limit)
	for i := 0; i < n; i++ {
		select {
		case <-done:
		case <-timeout:
			diodeTainted = true
			cs, cdump, cf := consumerState()
			ks, kdump, kf := closerState()
			r.mu.Lock()
			ignores := r.IgnoresCancel
			r.mu.Unlock()
			switch {
			case kf && gstate.Parked(ks) && ignores != "":
				r.CloseHung = fmt.Sprintf("Close parked in [%s]: %s", ks, ignores)
			case kf && gstate.Parked(ks) && !harnessFrame(kdump) && (!cf || (gstate.Parked(cs) && !harnessFrame(cdump))):
				r.CloseHung = fmt.Sprintf("Close parked in [%s] (call %d of %d), consumer present=%v state [%s]", ks, i+1, n, cf, cs)
			default:
				r.CloseHung = fmt.Sprintf("inconclusive: Close [%s] consumer [%s]", ks, cs)
			}
			return
		}
	}
}

// ---- derived facts -----------------------------------------------------------------------------------

// W and D return consistent copies of the recorded writes / deliveries (a producer that a broken tree left
// spinning may still be updating its record while the run is judged).
func (r *dRun) W() []*dWrite {
	r.wmu.Lock()
	defer r.wmu.Unlock()
	out := make([]*dWrite, len(r.writes))
	for i, w := range r.writes {
		c := *w
		out[i] = &c
	}
	return out
}

func (r *dRun) D() []dDelivery {
	r.dmu.Lock()
	defer r.dmu.Unlock()
	return append([]dDelivery(nil), r.deliveries...)
}

func (r *dRun) counts() (written, returned, delivered int, alerts int64) {
	ws := r.W()
	written = len(ws)
	for _, w := range ws {
		if w.Returned {
			returned++
		}
	}
	delivered = len(r.D())
	return written, returned, delivered, atomic.LoadInt64(&r.alertSum)
}

// maxOutstanding = max over the logical clock of (Write calls started - deliveries completed).
func (r *dRun) maxOutstanding() int {
	type ev struct {
		t int64
		d int
	}
	var evs []ev
	for _, w := range r.W() {
		evs = append(evs, ev{w.Call, +1})
	}
	for _, d := range r.D() {
		evs = append(evs, ev{d.Exit, -1})
	}
	// insertion sort by t (small slices)
	for i := 1; i < len(evs); i++ {
		for j := i; j > 0 && evs[j].t < evs[j-1].t; j-- {
			evs[j], evs[j-1] = evs[j-1], evs[j]
		}
	}
	cur, mx := 0, 0
	for _, e := range evs {
		cur += e.d
		if cur > mx {
			mx = cur
		}
	}
	return mx
}

// interleaving hash: the sequence of (role, point) events (args and producer identity left out).
func (r *dRun) interleavingHash() uint64 {
	h := uint64(0xcbf29ce484222325)
	for _, e := range r.trace {
		h ^= uint64(e.Pt) + 1
		h *= 0x100000001b3
	}
	return h
}

// windows observed in the trace (named situations the checks target).
func (r *dRun) windows() map[string]int {
	w := map[string]int{}
	sawBcastSinceEmpty := false
	for i, e := range r.trace {
		switch dPoints[e.Pt] {
		case "m2o.set.casfailed":
			w["cas_lost"]++
		case "m2o.set.collision":
			w["collision_with_newer_bucket"]++
		case "m2o.next.alerted":
			w["lap_alert"]++
		case "m2o.next.swapped.nil":
			sawBcastSinceEmpty = false
		case "waiter.set.afterbroadcast":
			sawBcastSinceEmpty = true
		case "waiter.next.beforewait":
			if sawBcastSinceEmpty {
				w["broadcast_between_empty_trynext_and_wait"]++
			}
		case "diode.close.cancelled":
			// cancel while the consumer is between an empty TryNext and its done-check/wait
			for j := i - 1; j >= 0; j-- {
				if r.trace[j].Role == roleConsumer {
					if dPoints[r.trace[j].Pt] == "m2o.next.swapped.nil" || dPoints[r.trace[j].Pt] == "m2o.next.enter" {
						w["cancel_during_trynext"]++
					}
					break
				}
			}
		}
	}
	if r.nClaimed > int64(len(r.W())) {
		w["position_retried"]++
	}
	r.mu.Lock()
	for _, p := range r.cfg.Pauses {
		if p.entered {
			w["directed_pause_entered"]++
			if p.TimedOut {
				w["directed_pause_timed_out"]++
			}
		}
	}
	r.mu.Unlock()
	return w
}

func (r *dRun) describe() map[string]interface{} {
	wr, ret, del, al := r.counts()
	var tr []string
	for i, e := range r.trace {
		if i >= 400 {
			tr = append(tr, fmt.Sprintf("...(%d more events)", len(r.trace)-i))
			break
		}
		s := fmt.Sprintf("%s(%d)", dPoints[e.Pt], e.Arg)
		if e.Role == roleProducer {
			if p, ok := r.prodG.Load(e.G); ok {
				s = fmt.Sprintf("P%d:%s", p, s)
			}
		}
		tr = append(tr, s)
	}
	var dl []string
	for _, d := range r.D() {
		dl = append(dl, d.ID)
	}
	return map[string]interface{}{"config": r.cfg.String(), "writes_started": wr, "writes_returned": ret, "delivered": del, "alert_sum": al, "positions_claimed": r.nClaimed,
		"consumer_readIndex": r.readIndex, "deliveries": strings.Join(dl, " "), "hook_trace": strings.Join(tr, " ")}
}

var _ = io.Discard
