package main

import (
	"bytes"
	"fmt"
	"time"

	"github.com/rs/zerolog"
	"github.com/rs/zerolog/diode/verifh/evid"
	"github.com/rs/zerolog/diode/verifh/gen"
	"github.com/rs/zerolog/diode/verifh/jsonv"
)

func init() { commands["c16-runes"] = c16runes }

// c16runes: every Unicode code point (surrogates: also as raw bytes) inside a field name, a field value, an error
// text and the message of an event that the real logger emits; the ConsoleWriter's line is compared with the
// reference renderer (quoting decisions, escaping, nothing lost).
func c16runes(args []string) int {
	f := mustFlags(args)
	out := evid.New("C16")
	out.Sub = "runes"
	st := gen.DefaultSettings()
	st.TimeFieldFormat = time.RFC3339
	restore := st.Apply()
	defer restore()
	w := &bufW{}
	l := zerolog.New(w).With().Timestamp().Logger()
	c := &c16cfg{TimeFormat: time.RFC3339, Loc: time.UTC, LocName: "UTC"}
	const total = 0x110000
	lo := total / f.NShards * f.Shard
	hi := total / f.NShards * (f.Shard + 1)
	if f.Shard == f.NShards-1 {
		hi = total
	}
	var n int64
	var ob bytes.Buffer
	cw := zerolog.ConsoleWriter{Out: &ob, NoColor: true, TimeFormat: c.TimeFormat, TimeLocation: c.Loc}
	for cp := lo; cp < hi; cp++ {
		text := "a" + string(rune(cp)) + "b"
		if cp >= 0xd800 && cp <= 0xdfff && cp%2 == 1 {
			text = string([]byte{'a', 0xed, byte(0xa0 | (cp>>6)&0x1f), byte(0x80 | cp&0x3f), 'b'})
		}
		switch cp % 6 {
		case 4:
			// nothing but parts: the message is the last thing on the line, and ends in spaces
			l.Info().Msg(text + []string{" ", "  ", " \t "}[cp/6%3])
		case 5:
			l.Info().Msg([]string{" ", "   ", text + " "}[cp/6%3])
		case 0:
			l.Info().Str("k", text).Msg("m")
		case 1:
			l.Warn().Str("k"+text, "v").Msg(text)
		case 2:
			l.Error().Err(fmt.Errorf("%s", text)).Str("z", text).Msg("m")
		default:
			l.Debug().Strs("s", []string{text}).Dict("d", zerolog.Dict().Str("x", text)).Msg(text)
		}
		n++
		rep := map[string]interface{}{"check": "c16-runes", "code_point": fmt.Sprintf("U+%04X", cp), "event": fmt.Sprintf("%q", clipb(w.b))}
		ev, err := jsonv.ParseLine(w.b)
		if err != nil {
			continue // C01's business
		}
		ob.Reset()
		nw, werr := cw.Write(w.b)
		if werr != nil || nw != len(w.b) {
			out.Violate("rune:write-result", fmt.Sprintf("U+%04X: ConsoleWriter.Write returned (%d, %v) for a %d-byte event zerolog emitted", cp, nw, werr, len(w.b)), rep)
			continue
		}
		rep["console"] = fmt.Sprintf("%q", clipb(ob.Bytes()))
		if err := checkConsole(ob.Bytes(), ev, c, &st); err != nil {
			out.Violate(sigOf("rune:render", err.Error()), fmt.Sprintf("U+%04X: %v; console %q", cp, err, clipb(ob.Bytes())), rep)
		}
	}
	out.Evaluations = n
	out.Count("code_points_rendered", n)
	out.Finish(f)
	return 0
}
