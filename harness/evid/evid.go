// Package evid collects what a check child observed and writes it as JSON for run.py.
package evid

import (
	"bufio"
	"encoding/binary"
	"encoding/json"
	"flag"
	"fmt"
	"os"
	"sort"
	"sync"
)

type Violation struct {
	Sig    string                 `json:"sig"`  // signature matched against known_findings.json
	Desc   string                 `json:"desc"` // human readable
	Replay map[string]interface{} `json:"replay,omitempty"`
}

type Out struct {
	Property     string                    `json:"property"`
	Sub          string                    `json:"sub,omitempty"`
	Evaluations  int64                     `json:"evaluations"`
	Distinct     int64                     `json:"distinct_nontrivial"`
	Samples      []interface{}             `json:"samples"`
	Counters     map[string]int64          `json:"counters"`
	Matrix       map[string]map[string]int `json:"matrix,omitempty"`
	Violations   []Violation               `json:"violations"`
	NViolations  int64                     `json:"n_violations"`
	Inconclusive []string                  `json:"inconclusive"`
	Exhaustive   bool                      `json:"exhaustive,omitempty"`
	Extra        map[string]interface{}    `json:"extra,omitempty"`

	mu     sync.Mutex
	hashes map[uint64]struct{}
	sigCnt map[string]int
}

// Common flags of every check child.
type Flags struct {
	Seed    uint64
	Tier    string
	Shard   int
	NShards int
	OutPath string
	HashOut string
	Replay  int64
	Scale   float64
}

func ParseFlags(args []string) (*Flags, *flag.FlagSet, error) {
	f := &Flags{}
	fs := flag.NewFlagSet("vh", flag.ContinueOnError)
	fs.Uint64Var(&f.Seed, "seed", 1, "VERIF_SEED")
	fs.StringVar(&f.Tier, "tier", "quick", "quick|thorough")
	fs.IntVar(&f.Shard, "shard", 0, "shard index")
	fs.IntVar(&f.NShards, "nshards", 1, "number of shards")
	fs.StringVar(&f.OutPath, "out", "", "result json path (default stdout)")
	fs.StringVar(&f.HashOut, "hashes", "", "distinct-hash file path")
	fs.Int64Var(&f.Replay, "replay", -1, "replay a single case index")
	fs.Float64Var(&f.Scale, "scale", 1, "scale case counts (testing)")
	return f, fs, nil
}

func (f *Flags) Thorough() bool { return f.Tier == "thorough" }

// N scales a case count.
func (f *Flags) N(quick, thorough int) int {
	n := quick
	if f.Thorough() {
		n = thorough
	}
	n = int(float64(n) * f.Scale)
	if n < 1 {
		n = 1
	}
	return n
}

// Mine reports whether case index i belongs to this shard.
func (f *Flags) Mine(i int) bool {
	if f.Replay >= 0 {
		return int64(i) == f.Replay
	}
	return i%f.NShards == f.Shard
}

func New(prop string) *Out {
	return &Out{Property: prop, Counters: map[string]int64{}, hashes: map[uint64]struct{}{}, sigCnt: map[string]int{}, Extra: map[string]interface{}{}}
}

func (o *Out) Count(name string, n int64) {
	o.mu.Lock()
	o.Counters[name] += n
	o.mu.Unlock()
}

// Case records one executed case; h is its content hash; nontrivial by the check's rule.
func (o *Out) Case(h uint64, nontrivial bool) {
	o.mu.Lock()
	o.Evaluations++
	if nontrivial {
		o.hashes[h] = struct{}{}
	}
	o.mu.Unlock()
}

func (o *Out) Sample(s interface{}, max int) {
	o.mu.Lock()
	if len(o.Samples) < max {
		o.Samples = append(o.Samples, s)
	}
	o.mu.Unlock()
}

// Violate records a violation; at most 5 per signature are kept in detail.
func (o *Out) Violate(sig, desc string, replay map[string]interface{}) {
	o.mu.Lock()
	o.NViolations++
	o.sigCnt[sig]++
	if o.sigCnt[sig] <= 3 && len(o.Violations) < 60 {
		o.Violations = append(o.Violations, Violation{sig, desc, replay})
	}
	o.mu.Unlock()
}

func (o *Out) Inconc(s string) {
	o.mu.Lock()
	if len(o.Inconclusive) < 50 {
		o.Inconclusive = append(o.Inconclusive, s)
	}
	o.Counters["inconclusive"]++
	o.mu.Unlock()
}

func (o *Out) Finish(f *Flags) {
	o.Distinct = int64(len(o.hashes))
	if o.Samples == nil {
		o.Samples = []interface{}{}
	}
	if o.Violations == nil {
		o.Violations = []Violation{}
	}
	if o.Inconclusive == nil {
		o.Inconclusive = []string{}
	}
	o.Extra["violations_by_sig"] = o.sigCnt
	if f.HashOut != "" {
		hs := make([]uint64, 0, len(o.hashes))
		for h := range o.hashes {
			hs = append(hs, h)
		}
		sort.Slice(hs, func(i, j int) bool { return hs[i] < hs[j] })
		fh, err := os.Create(f.HashOut)
		if err == nil {
			w := bufio.NewWriter(fh)
			var b [8]byte
			for _, h := range hs {
				binary.LittleEndian.PutUint64(b[:], h)
				w.Write(b[:])
			}
			w.Flush()
			fh.Close()
		}
	}
	b, err := json.Marshal(o)
	if err != nil {
		fmt.Fprintln(os.Stderr, "evid: marshal:", err)
		os.Exit(2)
	}
	if f.OutPath == "" {
		os.Stdout.Write(append(b, '\n'))
		return
	}
	if err := os.WriteFile(f.OutPath, b, 0o644); err != nil {
		fmt.Fprintln(os.Stderr, "evid: write:", err)
		os.Exit(2)
	}
}

// MergeHashFiles counts distinct hashes over sorted hash files.
func MergeHashFiles(paths []string) (int64, error) {
	seen := map[uint64]struct{}{}
	for _, p := range paths {
		b, err := os.ReadFile(p)
		if err != nil {
			return 0, err
		}
		for i := 0; i+8 <= len(b); i += 8 {
			seen[binary.LittleEndian.Uint64(b[i:])] = struct{}{}
		}
	}
	return int64(len(seen)), nil
}
