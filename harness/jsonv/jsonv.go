// Package jsonv is an independent strict RFC 8259 validator / tokenizer. It shares no code with
// zerolog or encoding/json. It produces an ordered tree (duplicate keys preserved, numbers as
// text, strings decoded, raw spans kept).
package jsonv

import (
	"fmt"
	"unicode/utf8"
)

type Kind byte

const (
	Null Kind = iota
	Bool
	Number
	String
	Array
	Object
)

func (k Kind) String() string {
	return [...]string{"null", "bool", "number", "string", "array", "object"}[k]
}

type KV struct {
	Key    string // decoded
	RawKey []byte
	Val    *Node
}

type Node struct {
	Kind Kind
	B    bool
	Num  string // number text
	Str  string // decoded string
	Arr  []*Node
	Obj  []KV
	Raw  []byte // exact bytes of this value in the input
}

type parser struct {
	b     []byte
	i     int
	depth int
}

const maxDepth = 10000

type Error struct {
	Off int
	Msg string
}

func (e *Error) Error() string { return fmt.Sprintf("json: offset %d: %s", e.Off, e.Msg) }

func (p *parser) fail(msg string) error { return &Error{p.i, msg} }

// ParseValue parses exactly one JSON value spanning all of b (no leading/trailing whitespace
// tolerated unless allowWS).
func ParseValue(b []byte, allowWS bool) (*Node, error) {
	p := &parser{b: b}
	if allowWS {
		p.ws()
	}
	n, err := p.value()
	if err != nil {
		return nil, err
	}
	if allowWS {
		p.ws()
	}
	if p.i != len(b) {
		return nil, p.fail("trailing bytes after value")
	}
	return n, nil
}

// ParseLine validates the C01 shape: exactly one object, valid UTF-8 overall, followed by exactly
// one '\n' and nothing else; no byte < 0x20 anywhere except that final newline.
func ParseLine(b []byte) (*Node, error) {
	if len(b) == 0 {
		return nil, &Error{0, "empty write"}
	}
	if b[len(b)-1] != '\n' {
		return nil, &Error{len(b) - 1, "does not end with newline"}
	}
	body := b[:len(b)-1]
	for i, c := range body {
		if c < 0x20 {
			return nil, &Error{i, fmt.Sprintf("raw control byte 0x%02x", c)}
		}
	}
	if !utf8.Valid(body) {
		return nil, &Error{0, "invalid UTF-8"}
	}
	n, err := ParseValue(body, false)
	if err != nil {
		return nil, err
	}
	if n.Kind != Object {
		return nil, &Error{0, "top-level value is not an object"}
	}
	return n, nil
}

func (p *parser) ws() {
	for p.i < len(p.b) {
		switch p.b[p.i] {
		case ' ', '\t', '\n', '\r':
			p.i++
		default:
			return
		}
	}
}

func (p *parser) value() (*Node, error) {
	if p.i >= len(p.b) {
		return nil, p.fail("unexpected end, value expected")
	}
	start := p.i
	var n *Node
	var err error
	switch c := p.b[p.i]; {
	case c == '{':
		n, err = p.object()
	case c == '[':
		n, err = p.array()
	case c == '"':
		var s string
		s, err = p.str()
		n = &Node{Kind: String, Str: s}
	case c == '-' || (c >= '0' && c <= '9'):
		n, err = p.number()
	case c == 't':
		err = p.lit("true")
		n = &Node{Kind: Bool, B: true}
	case c == 'f':
		err = p.lit("false")
		n = &Node{Kind: Bool, B: false}
	case c == 'n':
		err = p.lit("null")
		n = &Node{Kind: Null}
	default:
		return nil, p.fail(fmt.Sprintf("unexpected byte %q, value expected", c))
	}
	if err != nil {
		return nil, err
	}
	n.Raw = p.b[start:p.i]
	return n, nil
}

func (p *parser) lit(s string) error {
	if len(p.b)-p.i < len(s) || string(p.b[p.i:p.i+len(s)]) != s {
		return p.fail("bad literal, expected " + s)
	}
	p.i += len(s)
	return nil
}

func (p *parser) number() (*Node, error) {
	start := p.i
	if p.b[p.i] == '-' {
		p.i++
	}
	if p.i >= len(p.b) {
		return nil, p.fail("truncated number")
	}
	switch c := p.b[p.i]; {
	case c == '0':
		p.i++
	case c >= '1' && c <= '9':
		for p.i < len(p.b) && p.b[p.i] >= '0' && p.b[p.i] <= '9' {
			p.i++
		}
	default:
		return nil, p.fail("bad number: digit expected")
	}
	if p.i < len(p.b) && p.b[p.i] == '.' {
		p.i++
		d := p.i
		for p.i < len(p.b) && p.b[p.i] >= '0' && p.b[p.i] <= '9' {
			p.i++
		}
		if p.i == d {
			return nil, p.fail("bad number: fraction digits expected")
		}
	}
	if p.i < len(p.b) && (p.b[p.i] == 'e' || p.b[p.i] == 'E') {
		p.i++
		if p.i < len(p.b) && (p.b[p.i] == '+' || p.b[p.i] == '-') {
			p.i++
		}
		d := p.i
		for p.i < len(p.b) && p.b[p.i] >= '0' && p.b[p.i] <= '9' {
			p.i++
		}
		if p.i == d {
			return nil, p.fail("bad number: exponent digits expected")
		}
	}
	return &Node{Kind: Number, Num: string(p.b[start:p.i])}, nil
}

func hexv(c byte) int {
	switch {
	case c >= '0' && c <= '9':
		return int(c - '0')
	case c >= 'a' && c <= 'f':
		return int(c-'a') + 10
	case c >= 'A' && c <= 'F':
		return int(c-'A') + 10
	}
	return -1
}

func (p *parser) u4() (rune, error) {
	if len(p.b)-p.i < 4 {
		return 0, p.fail("truncated \\u escape")
	}
	var r rune
	for k := 0; k < 4; k++ {
		h := hexv(p.b[p.i+k])
		if h < 0 {
			return 0, p.fail("bad hex digit in \\u escape")
		}
		r = r<<4 | rune(h)
	}
	p.i += 4
	return r, nil
}

func (p *parser) str() (string, error) {
	p.i++ // opening quote
	var out []byte
	for {
		if p.i >= len(p.b) {
			return "", p.fail("unterminated string")
		}
		c := p.b[p.i]
		switch {
		case c == '"':
			p.i++
			return string(out), nil
		case c < 0x20:
			return "", p.fail(fmt.Sprintf("raw control byte 0x%02x in string", c))
		case c == '\\':
			p.i++
			if p.i >= len(p.b) {
				return "", p.fail("truncated escape")
			}
			e := p.b[p.i]
			p.i++
			switch e {
			case '"', '\\', '/':
				out = append(out, e)
			case 'b':
				out = append(out, '\b')
			case 'f':
				out = append(out, '\f')
			case 'n':
				out = append(out, '\n')
			case 'r':
				out = append(out, '\r')
			case 't':
				out = append(out, '\t')
			case 'u':
				r, err := p.u4()
				if err != nil {
					return "", err
				}
				if r >= 0xD800 && r <= 0xDBFF {
					// high surrogate: must be followed by \uDC00-\uDFFF
					if len(p.b)-p.i >= 6 && p.b[p.i] == '\\' && p.b[p.i+1] == 'u' {
						save := p.i
						p.i += 2
						r2, err := p.u4()
						if err != nil {
							return "", err
						}
						if r2 >= 0xDC00 && r2 <= 0xDFFF {
							r = 0x10000 + (r-0xD800)<<10 + (r2 - 0xDC00)
						} else {
							p.i = save
							return "", p.fail("unpaired high surrogate escape")
						}
					} else {
						return "", p.fail("unpaired high surrogate escape")
					}
				} else if r >= 0xDC00 && r <= 0xDFFF {
					return "", p.fail("unpaired low surrogate escape")
				}
				var tmp [4]byte
				n := utf8.EncodeRune(tmp[:], r)
				out = append(out, tmp[:n]...)
			default:
				return "", p.fail(fmt.Sprintf("bad escape \\%c", e))
			}
		case c < 0x80:
			out = append(out, c)
			p.i++
		default:
			r, size := utf8.DecodeRune(p.b[p.i:])
			if r == utf8.RuneError && size == 1 {
				return "", p.fail("invalid UTF-8 in string")
			}
			out = append(out, p.b[p.i:p.i+size]...)
			p.i += size
		}
	}
}

func (p *parser) array() (*Node, error) {
	p.depth++
	defer func() { p.depth-- }()
	if p.depth > maxDepth {
		return nil, p.fail("nesting too deep")
	}
	p.i++
	n := &Node{Kind: Array}
	p.ws()
	if p.i < len(p.b) && p.b[p.i] == ']' {
		p.i++
		return n, nil
	}
	for {
		p.ws()
		v, err := p.value()
		if err != nil {
			return nil, err
		}
		n.Arr = append(n.Arr, v)
		p.ws()
		if p.i >= len(p.b) {
			return nil, p.fail("unterminated array")
		}
		if p.b[p.i] == ',' {
			p.i++
			continue
		}
		if p.b[p.i] == ']' {
			p.i++
			return n, nil
		}
		return nil, p.fail(fmt.Sprintf("unexpected byte %q in array", p.b[p.i]))
	}
}

func (p *parser) object() (*Node, error) {
	p.depth++
	defer func() { p.depth-- }()
	if p.depth > maxDepth {
		return nil, p.fail("nesting too deep")
	}
	p.i++
	n := &Node{Kind: Object}
	p.ws()
	if p.i < len(p.b) && p.b[p.i] == '}' {
		p.i++
		return n, nil
	}
	for {
		p.ws()
		if p.i >= len(p.b) || p.b[p.i] != '"' {
			return nil, p.fail("object key (string) expected")
		}
		ks := p.i
		k, err := p.str()
		if err != nil {
			return nil, err
		}
		rawk := p.b[ks:p.i]
		p.ws()
		if p.i >= len(p.b) || p.b[p.i] != ':' {
			return nil, p.fail("':' expected after object key")
		}
		p.i++
		p.ws()
		v, err := p.value()
		if err != nil {
			return nil, err
		}
		n.Obj = append(n.Obj, KV{Key: k, RawKey: rawk, Val: v})
		p.ws()
		if p.i >= len(p.b) {
			return nil, p.fail("unterminated object")
		}
		if p.b[p.i] == ',' {
			p.i++
			continue
		}
		if p.b[p.i] == '}' {
			p.i++
			return n, nil
		}
		return nil, p.fail(fmt.Sprintf("unexpected byte %q in object", p.b[p.i]))
	}
}

// Get returns the last value for key in an object node (JSON map decoding semantics) or nil.
func (n *Node) Get(key string) *Node {
	var r *Node
	for i := range n.Obj {
		if n.Obj[i].Key == key {
			r = n.Obj[i].Val
		}
	}
	return r
}

// ParsePrefix parses one JSON value at the start of b and returns it with the number of bytes
// consumed (no surrounding whitespace is skipped).
func ParsePrefix(b []byte) (*Node, int, error) {
	p := &parser{b: b}
	n, err := p.value()
	if err != nil {
		return nil, 0, err
	}
	return n, p.i, nil
}

// SemEqual compares two values the way a JSON map decode sees them: object member order is
// irrelevant and the last duplicate wins; numbers compare by text; strings decoded.
func SemEqual(a, b *Node) bool {
	if a.Kind != b.Kind {
		return false
	}
	switch a.Kind {
	case Null:
		return true
	case Bool:
		return a.B == b.B
	case Number:
		return a.Num == b.Num
	case String:
		return a.Str == b.Str
	case Array:
		if len(a.Arr) != len(b.Arr) {
			return false
		}
		for i := range a.Arr {
			if !SemEqual(a.Arr[i], b.Arr[i]) {
				return false
			}
		}
		return true
	}
	am, bm := map[string]*Node{}, map[string]*Node{}
	for _, kv := range a.Obj {
		am[kv.Key] = kv.Val
	}
	for _, kv := range b.Obj {
		bm[kv.Key] = kv.Val
	}
	if len(am) != len(bm) {
		return false
	}
	for k, v := range am {
		w, ok := bm[k]
		if !ok || !SemEqual(v, w) {
			return false
		}
	}
	return true
}
