package gen

import (
	"context"
	"fmt"
	"io"
	"strings"
	"sync"
	"time"

	"github.com/rs/zerolog"
)

// HookSpec describes one user hook.
type HookSpec struct {
	ID   int
	Kind int // 0 add fields, 1 discard, 2 read GetCtx, 3 noop, 4 LevelHook wrapper around an add hook, 5 HookFunc add, 6 Context.Timestamp() hook,
	// 7 add fields after logging a complete event through ANOTHER logger (re-entrancy while the outer event is open),
	// 8 LevelHook with only the Info and Error slots set (the add hook runs for those levels only), 9 NewLevelHook() (all slots empty)
	Ops []*Op
	Out []KVI
}

var hookKindNames = [...]string{"add", "discard", "getctx", "noop", "levelhook", "hookfunc", "timestamp", "add-after-nested-logging", "levelhook(info,error)", "levelhook(empty)"}

// Step is one logger derivation step.
type Step struct {
	Decoy  bool   // after this step, derive (and drop) siblings from the step's parent: they must not disturb the chain
	Kind   string // With, WithReset, WithTimestamp, WithStack, WithCtx, UpdateContext, Hook, Level, Output, Sample
	Ops    []*Op
	Hooks  []*HookSpec
	Level  zerolog.Level
	CtxVal string
}

// EventSpec is one logging statement.
type EventSpec struct {
	Entry string // Trace Debug Info Warn Error Log WithLevel Err
	Level zerolog.Level
	Err   error
	Ops   []*Op
	Fin   string // Msg Msgf MsgFunc Send
	Msg   string
	EvCtx string // if non-empty: Event.Ctx(context with this value) is called first
	Hist  int    // if non-zero: History(Hist) runs on the same goroutine right before the event
}

// HookCall is one recorded hook invocation.
type HookCall struct {
	ID    int
	Level zerolog.Level
	Msg   string
	Ctx   string // value read through GetCtx (kind 2 hooks)
}

// Expected is the specified outcome of one EventSpec.
type Expected struct {
	Written   bool
	Level     zerolog.Level
	Fields    []KVI
	Hooks     []HookCall // specified calls (level/msg only meaningful up to the first discard)
	Discarded bool
	Enabled   bool
}

type Program struct {
	S          Settings
	Chain      []Step
	Events     []EventSpec
	Expect     []Expected
	Containers int
}

type ctxKey struct{}

// ---- generation -----------------------------------------------------------------------------------

var timeFormats = []string{"", zerolog.TimeFormatUnixMs, zerolog.TimeFormatUnixMicro, zerolog.TimeFormatUnixNano,
	"2006-01-02T15:04:05Z07:00", "2006-01-02T15:04:05.999999999Z07:00", "Mon Jan _2 15:04:05 MST 2006", "2006-01-02 15:04:05.000000", "3:04PM",
	// layouts with literal non-ASCII text and a byte that is not valid UTF-8 (neither quote, backslash nor control character)
	"2006年01月02日 15:04:05 MST", "\xff2006-01-02T15:04:05Z07:00"}

var fieldNameChoices = []string{"", "f", "a b", "q\"k", "\xff", "msg\n", "é", "level", "message", "time", "error"}

// RandomSettings draws global settings. full=false keeps the field names at their defaults.
func (g *G) RandomSettings(full bool) Settings {
	r := g.R
	s := DefaultSettings()
	s.TimeFieldFormat = timeFormats[r.Intn(len(timeFormats))]
	s.DurationFieldUnit = []time.Duration{1, 1000, 1000000, 1000000000, 7}[r.Intn(5)]
	s.DurationFieldInteger = r.Bool()
	s.FloatingPointPrecision = []int{-1, -1, -1, 0, 2, 10, 1, 40}[r.Intn(8)]
	s.ErrMarshal = []int{0, 0, 0, 1, 2, 3, 4, 5, 6}[r.Intn(9)]
	if g.P.CustomIface {
		s.IfaceMarshal = []int{0, 0, 0, 0, 1, 1, 2}[r.Intn(7)]
	}
	if r.Chance(1, 2) {
		// Caller() fields: a CallerMarshalFunc with a fixed (arbitrary) text makes them deterministic
		s.CallerText = g.V.String()
		if s.CallerText == "" {
			s.CallerText = "c"
		}
	}
	s.StackMarshal = []int{0, 0, 1, 2, 3, 4, 5, 6}[r.Intn(8)]
	if full {
		pick := func(def string) string {
			if r.Chance(2, 3) {
				return def
			}
			return fieldNameChoices[r.Intn(len(fieldNameChoices))]
		}
		s.LevelFieldName = pick("level")
		s.MessageFieldName = pick("message")
		s.TimestampFieldName = pick("time")
		s.ErrorFieldName = pick("error")
		s.ErrorStackFieldName = pick("stack")
		s.CallerFieldName = pick("caller")
	}
	if r.Chance(1, 5) {
		s.GlobalLevel = zerolog.Level(r.Intn(5) - 1)
	}
	return s
}

// GenHook builds a hook spec.
func (g *G) GenHook(id int, allowDiscard bool) *HookSpec {
	r := g.R
	h := &HookSpec{ID: id}
	h.Kind = []int{0, 0, 0, 1, 2, 3, 4, 5, 7, 8, 9}[r.Intn(11)]
	if h.Kind == 1 && !allowDiscard {
		h.Kind = 0
	}
	switch h.Kind {
	case 0, 4, 5, 7, 8:
		n := 1 + r.Intn(2)
		st := false
		for i := 0; i < n; i++ {
			// hook fields: plain scalars (no Err: depends on event stack flag)
			for {
				k := scalarKinds[r.Intn(len(scalarKinds))]
				if k == "AnErr" {
					continue
				}
				op := g.makeOp(FeHook, evType, k, g.P.MaxDepth, &st)
				if strings.HasSuffix(op.M, "#obj") {
					continue // nested Err would depend on the stack flag of whichever event runs the hook
				}
				g.hit(FeHook, k)
				h.Ops = append(h.Ops, op)
				h.Out = append(h.Out, op.Out...)
				break
			}
		}
	}
	return h
}

func stdLevel(l zerolog.Level) bool { return l >= -1 && l <= 6 }

// GenProgram generates a whole program under the settings already stored in g.S.
func (g *G) GenProgram(maxChain, maxEvents, maxOps int) *Program {
	r := g.R
	p := &Program{S: *g.S}
	// model state
	var ctxFields []KVI
	var hooks []*HookSpec
	level := zerolog.TraceLevel
	stack := false
	goctx := ""
	hookID := 0
	rejected := false
	nchain := r.Intn(maxChain + 1)
	lastWith := false
	for i := 0; i < nchain; i++ {
		var st Step
		choice := r.Intn(14)
		switch {
		case choice <= 4:
			st.Kind = "With"
			n := r.Intn(4)
			for j := 0; j < n; j++ {
				st.Ops = append(st.Ops, g.keyedOp(FeContext, 0, &stack))
			}
			ctxFields = append(ctxFields, outOf(st.Ops)...)
		case choice == 5:
			st.Kind = "WithReset"
			ctxFields = nil
			n := r.Intn(3)
			for j := 0; j < n; j++ {
				st.Ops = append(st.Ops, g.keyedOp(FeContext, 0, &stack))
			}
			ctxFields = append(ctxFields, outOf(st.Ops)...)
		case choice == 6 && g.S.CallerText != "" && r.Chance(1, 3):
			// Context.Caller(): a hook that adds the caller field when the event is finalized
			st.Kind = "WithCaller"
			hookID++
			h := &HookSpec{ID: hookID, Kind: 6, Out: []KVI{{g.S.CallerFieldName, Str(g.S.CallerText)}}}
			if r.Chance(1, 5) {
				st.Kind = "WithCallerFar" // CallerWithSkipFrameCount beyond the stack: the hook adds nothing
				h.Out = nil
			}
			st.Hooks = []*HookSpec{h}
			hooks = append(hooks[:len(hooks):len(hooks)], h)
		case choice == 6:
			st.Kind = "WithTimestamp"
			hookID++
			h := &HookSpec{ID: hookID, Kind: 6, Out: []KVI{{g.S.TimestampFieldName, &Intent{K: ITime, T: g.S.Now}}}}
			st.Hooks = []*HookSpec{h}
			hooks = append(hooks[:len(hooks):len(hooks)], h)
		case choice == 7:
			st.Kind = "WithStack"
			stack = true
		case choice == 8:
			st.Kind = "WithCtx"
			st.CtxVal = fmt.Sprintf("ctx%d", i)
			goctx = st.CtxVal
		case choice == 9 && (lastWith || g.P.UpdateAnywhere):
			st.Kind = "UpdateContext"
			n := 1 + r.Intn(3)
			for j := 0; j < n; j++ {
				st.Ops = append(st.Ops, g.keyedOp(FeContext, 0, &stack))
			}
			ctxFields = append(ctxFields, outOf(st.Ops)...)
		case choice == 9 || choice == 10:
			st.Kind = "Hook"
			n := 1 + r.Intn(2)
			if r.Chance(1, 10) {
				n = 0 // Hook() without arguments
			}
			for j := 0; j < n; j++ {
				hookID++
				h := g.GenHook(hookID, true)
				st.Hooks = append(st.Hooks, h)
			}
			hooks = append(hooks[:len(hooks):len(hooks)], st.Hooks...)
		case choice == 11:
			st.Kind = "Level"
			st.Level = zerolog.Level(r.Intn(6) - 2)
			if r.Chance(1, 8) {
				st.Level = []zerolog.Level{zerolog.Disabled, zerolog.PanicLevel, zerolog.NoLevel}[r.Intn(3)] // a later Level step may re-enable
			}
			level = st.Level
		case choice == 12:
			st.Kind = "Output"
			// Output() does not carry the Go context (defect F5a fixed => it does); the model follows the
			// property: Output changes nothing but the destination.
		default:
			st.Kind = "Sample"
			rejected = false // the latest sampler is the one that counts
			if r.Chance(1, 8) {
				st.Kind = "SampleReject" // from here on nothing is emitted and no hook runs
				rejected = true
			} else if r.Chance(1, 6) {
				st.Kind = "SampleNil" // Sample(nil) removes a sampler
				rejected = false
			}
		}
		lastWith = strings.HasPrefix(st.Kind, "With")
		st.Decoy = r.Chance(1, 2)
		p.Chain = append(p.Chain, st)
	}
	nev := 1 + r.Intn(maxEvents)
	for i := 0; i < nev; i++ {
		var ev EventSpec
		switch c := r.Intn(12); {
		case c < 5:
			ev.Entry = []string{"Trace", "Debug", "Info", "Warn", "Error"}[c]
			ev.Level = zerolog.Level(c - 1)
		case c == 5:
			ev.Entry, ev.Level = "Log", zerolog.NoLevel
		case c == 6:
			ev.Entry = "Err"
			ev.Err = g.V.Err()
			if ev.Err != nil {
				ev.Level = zerolog.ErrorLevel
			} else {
				ev.Level = zerolog.InfoLevel
			}
		case c == 7:
			ev.Entry = "WithLevel"
			ev.Level = zerolog.Level(r.Intn(256) - 128)
		case c == 8 && r.Chance(1, 2):
			// the fmt-style entry points and io.Writer use: no fields, message only
			ev.Entry = []string{"Print", "Printf", "Println", "WriteIO", "WriteIO-nl"}[r.Intn(5)]
			ev.Level = zerolog.DebugLevel
			if strings.HasPrefix(ev.Entry, "WriteIO") {
				ev.Level = zerolog.NoLevel
			}
		case c == 9 && r.Chance(1, 3):
			// Panic(): the event is written like any other, then the call panics (recovered by the executor)
			ev.Entry, ev.Level = "Panic", zerolog.PanicLevel
		default:
			ev.Entry = "WithLevel"
			ev.Level = zerolog.Level(r.Intn(9) - 1)
		}
		evStack := stack
		var out []KVI
		if ev.Entry == "Err" && ev.Err != nil {
			// l.Error().Err(err)
			if evStack && isRealErr(ev.Err) {
				if sin, ok := g.S.stackIntent(); ok {
					out = append(out, KVI{g.S.ErrorStackFieldName, sin})
				}
			}
			if ein, ok := g.S.errIntent(ev.Err); ok {
				out = append(out, KVI{g.S.ErrorFieldName, ein})
			}
		}
		nops := r.Intn(maxOps + 1)
		plain := strings.HasPrefix(ev.Entry, "Print") || strings.HasPrefix(ev.Entry, "WriteIO")
		if plain {
			nops = 0
		}
		for j := 0; j < nops; j++ {
			op := g.keyedOp(FeEvent, 0, &evStack)
			ev.Ops = append(ev.Ops, op)
			out = append(out, op.Out...)
		}
		ev.Fin = []string{"Msg", "Msg", "Msgf", "MsgFunc", "Send"}[r.Intn(5)]
		if ev.Fin != "Send" && r.Chance(4, 5) {
			ev.Msg = g.V.String()
		}
		if ev.Fin == "Msgf" && r.Chance(1, 3) {
			// text that means something to fmt: escaped and dangling percent signs, verbs without operands
			ev.Msg += []string{"100%%", "50%", "%s", "%d%%", "%v %!", "%"}[r.Intn(6)]
		}
		finalMsg := ev.Msg
		if ev.Fin == "Msgf" {
			finalMsg = MsgfText(ev.Msg)
		}
		if ev.Fin == "Send" {
			finalMsg = ""
		}
		if plain {
			ev.Fin = "Msg"
			ev.Msg = g.V.String()
			finalMsg = ev.Msg
			switch ev.Entry {
			case "Println":
				finalMsg = ev.Msg + "\n"
			case "WriteIO":
				if strings.HasSuffix(ev.Msg, "\n") {
					finalMsg = ev.Msg[:len(ev.Msg)-1]
				}
			case "WriteIO-nl":
				// Logger.Write trims exactly one trailing newline (the one the standard log package adds)
				finalMsg = ev.Msg
			}
		}
		if r.Chance(1, 10) && !plain {
			ev.EvCtx = fmt.Sprintf("evctx%d", i)
		}
		// expectation
		var ex Expected
		ex.Level = ev.Level
		ex.Enabled = ev.Level != zerolog.Disabled && ev.Level >= level && ev.Level >= g.S.GlobalLevel && !rejected
		if ex.Enabled {
			var f []KVI
			if ev.Level != zerolog.NoLevel && g.S.LevelFieldName != "" {
				f = append(f, KVI{g.S.LevelFieldName, Str(ev.Level.String())})
			}
			f = append(f, ctxFields...)
			f = append(f, out...)
			evctx := goctx
			if ev.EvCtx != "" {
				evctx = ev.EvCtx
			}
			for _, h := range hooks {
				if h.Kind == 9 || (h.Kind == 8 && (ex.Discarded || (ev.Level != zerolog.InfoLevel && ev.Level != zerolog.ErrorLevel))) {
					continue // no slot for that level: nothing runs
				}
				if h.Kind == 4 && (!stdLevel(ev.Level) || ex.Discarded) {
					// LevelHook has no slot for custom levels; and once an earlier hook discarded the
					// event the level handed to later hooks is Disabled (not regulated by C03), for
					// which LevelHook has no slot either: the LevelHook ran, its inner recorder did not.
					continue
				}
				hc := HookCall{ID: h.ID, Level: ev.Level, Msg: finalMsg}
				if h.Kind == 2 {
					hc.Ctx = evctx
				}
				if h.Kind != 6 {
					ex.Hooks = append(ex.Hooks, hc)
				}
				f = append(f, h.Out...)
				if h.Kind == 1 {
					ex.Discarded = true
				}
			}
			if finalMsg != "" {
				f = append(f, KVI{g.S.MessageFieldName, Str(finalMsg)})
			}
			ex.Fields = f
			ex.Written = !ex.Discarded
		}
		if r.Chance(1, 4) {
			ev.Hist = 1 + r.Intn(NHistories)
			g.hit(FeEvent, "#after-history")
		}
		p.Events = append(p.Events, ev)
		p.Expect = append(p.Expect, ex)
	}
	p.Containers = g.Containers
	return p
}

// ---- execution --------------------------------------------------------------------------------------

// Write is one call received by the recording writer.
type Write struct {
	Level zerolog.Level
	P     []byte
	ByLW  bool
}

// Rec is a recording LevelWriter.
type Rec struct {
	mu sync.Mutex
	W  []Write
}

func (r *Rec) Lock()   { r.mu.Lock() }
func (r *Rec) Unlock() { r.mu.Unlock() }

func (r *Rec) Write(p []byte) (int, error) {
	r.mu.Lock()
	r.W = append(r.W, Write{Level: -99, P: append([]byte(nil), p...)})
	r.mu.Unlock()
	return len(p), nil
}

func (r *Rec) WriteLevel(l zerolog.Level, p []byte) (int, error) {
	r.mu.Lock()
	r.W = append(r.W, Write{Level: l, P: append([]byte(nil), p...), ByLW: true})
	r.mu.Unlock()
	return len(p), nil
}

var nested = zerolog.New(io.Discard).With().Str("nested", "logger").Logger()

type hookImpl struct {
	spec *HookSpec
	x    *Exec
	log  *[]HookCall
}

func (h hookImpl) Run(e *zerolog.Event, level zerolog.Level, msg string) {
	hc := HookCall{ID: h.spec.ID, Level: level, Msg: msg}
	switch h.spec.Kind {
	case 7:
		// a complete event through another logger while the outer one is still open: pooled events and
		// buffers change hands in the middle of the outer event
		nested.Warn().Str("from", "hook").Int("id", h.spec.ID).Dict("d", zerolog.Dict().Str("a", "b")).Msg("nested")
		fallthrough
	case 0, 4, 5, 8:
		for _, op := range h.spec.Ops {
			h.x.applyEvent(e, op)
		}
	case 1:
		e.Discard()
	case 2:
		if v, ok := e.GetCtx().Value(ctxKey{}).(string); ok {
			hc.Ctx = v
		}
	}
	*h.log = append(*h.log, hc)
}

type admitAll struct{}

func (admitAll) Sample(zerolog.Level) bool { return true }

// Result of executing a program.
type Result struct {
	Writes [][]Write    // per event
	Hooks  [][]HookCall // per event
	Panic  interface{}
}

func (x *Exec) mkHook(h *HookSpec, log *[]HookCall) zerolog.Hook {
	hi := hookImpl{h, x, log}
	switch h.Kind {
	case 4:
		return zerolog.LevelHook{NoLevelHook: hi, TraceHook: hi, DebugHook: hi, InfoHook: hi, WarnHook: hi, ErrorHook: hi, FatalHook: hi, PanicHook: hi}
	case 5:
		return zerolog.HookFunc(hi.Run)
	case 8:
		return zerolog.LevelHook{InfoHook: hi, ErrorHook: hi}
	case 9:
		return zerolog.NewLevelHook()
	}
	return hi
}

// BuildLogger derives the logger of the chain on top of base.
func (x *Exec) BuildLogger(base zerolog.Logger, chain []Step, out *Rec, hookLog *[]HookCall) zerolog.Logger {
	l := base
	for i := range chain {
		st := &chain[i]
		prev := l
		switch st.Kind {
		case "With", "WithReset":
			c := l.With()
			if st.Kind == "WithReset" {
				c = c.Reset()
			}
			for _, op := range st.Ops {
				c = x.applyContext(c, op)
			}
			l = c.Logger()
		case "WithTimestamp":
			l = l.With().Timestamp().Logger()
		case "WithCaller":
			l = l.With().Caller().Logger()
		case "WithCallerFar":
			l = l.With().CallerWithSkipFrameCount(100000).Logger()
		case "WithStack":
			l = l.With().Stack().Logger()
		case "WithCtx":
			l = l.With().Ctx(context.WithValue(context.Background(), ctxKey{}, st.CtxVal)).Logger()
		case "UpdateContext":
			// a copy of the logger made before the update (loggers are values: Level returns one) and updated on its own
			// afterwards: the two contexts are separate from then on
			var cp zerolog.Logger
			if st.Decoy {
				cp = l.Level(zerolog.TraceLevel)
			}
			l.UpdateContext(func(c zerolog.Context) zerolog.Context {
				for _, op := range st.Ops {
					c = x.applyContext(c, op)
				}
				return c
			})
			if st.Decoy {
				cp.UpdateContext(func(c zerolog.Context) zerolog.Context { return c.Str("DECOY", "update of a copy made earlier") })
			}
		case "Hook":
			hs := make([]zerolog.Hook, len(st.Hooks))
			for j, h := range st.Hooks {
				hs[j] = x.mkHook(h, hookLog)
			}
			l = l.Hook(hs...)
			if st.Decoy {
				// the slice handed to Hook is the caller's: overwriting it afterwards must not reach the logger
				for j := range hs {
					hs[j] = decoyHook{}
				}
			}
		case "Level":
			l = l.Level(st.Level)
		case "Output":
			l = l.Output(out)
		case "Sample":
			l = l.Sample(admitAll{})
		case "SampleReject":
			l = l.Sample(rejectAll{})
		case "SampleNil":
			l = l.Sample(nil)
		}
		if st.Decoy {
			// siblings derived from the same parent after the fact; if any of their state leaks into the
			// chain a DECOY field shows up or a hook goes missing
			d1 := prev.Hook(decoyHook{})
			d2 := prev.With().Str("DECOY", "ctx").Logger()
			d3 := prev.Hook(decoyHook{}, decoyHook{})
			// siblings that get built-in hooks through their Context: the far caller hook adds nothing where it
			// belongs, the decoy timestamp hook would add a second / foreign time member
			d4 := prev.With().CallerWithSkipFrameCount(100000).Logger()
			d5 := prev.With().Caller().Logger()
			_, _, _, _, _ = d1, d2, d3, d4, d5
		}
	}
	return l
}

type rejectAll struct{}

func (rejectAll) Sample(zerolog.Level) bool { return false }

type decoyHook struct{}

func (decoyHook) Run(e *zerolog.Event, l zerolog.Level, m string) { e.Str("DECOY", "hook") }

// msgfForm picks, from the message itself, how a Msgf finalizer is written: 0 = "%s%d" with two operands, 1 = the
// message as the format without operands, 2 = the message plus "100%%" without operands.
func msgfForm(m string) int {
	h := 0
	for i := 0; i < len(m); i++ {
		h = h*31 + int(m[i])
	}
	if h < 0 {
		h = -h
	}
	return h % 4 % 3 // 0,1,2,0
}

// MsgfText is what a Msgf finalizer of message m produces.
func MsgfText(m string) string {
	switch msgfForm(m) {
	case 1:
		return fmt.Sprintf(m)
	case 2:
		return fmt.Sprintf(m + "100%%")
	}
	return fmt.Sprintf("%s%d", m, 7)
}

// StartEvent opens the event of ev on l.
func StartEvent(l *zerolog.Logger, ev *EventSpec) *zerolog.Event {
	switch ev.Entry {
	case "Trace":
		return l.Trace()
	case "Debug":
		return l.Debug()
	case "Info":
		return l.Info()
	case "Warn":
		return l.Warn()
	case "Error":
		return l.Error()
	case "Log":
		return l.Log()
	case "Err":
		return l.Err(ev.Err)
	case "Panic":
		return l.Panic()
	}
	return l.WithLevel(ev.Level)
}

func Finish(e *zerolog.Event, ev *EventSpec) {
	switch ev.Fin {
	case "Msg":
		e.Msg(ev.Msg)
	case "Msgf":
		switch msgfForm(ev.Msg) {
		case 1:
			e.Msgf(ev.Msg) // no operands: still a format (the generated text may hold % signs)
		case 2:
			e.Msgf(ev.Msg+"100%%", []interface{}{}...)
		default:
			e.Msgf("%s%d", ev.Msg, 7)
		}
	case "MsgFunc":
		e.MsgFunc(func() string { return ev.Msg })
	default:
		e.Send()
	}
}

// Run executes the program against the real API (settings must already be applied).
func (x *Exec) Run(p *Program) (res Result) {
	rec := &Rec{}
	var hookLog []HookCall
	defer func() {
		if r := recover(); r != nil {
			res.Panic = r
		}
	}()
	l := x.BuildLogger(zerolog.New(rec), p.Chain, rec, &hookLog)
	for i := range p.Events {
		ev := &p.Events[i]
		if ev.Hist != 0 {
			History(ev.Hist)
		}
		w0, h0 := len(rec.W), len(hookLog)
		if runPlain(&l, ev) {
			res.Writes = append(res.Writes, append([]Write(nil), rec.W[w0:]...))
			res.Hooks = append(res.Hooks, append([]HookCall(nil), hookLog[h0:]...))
			continue
		}
		func() {
			if ev.Entry == "Panic" {
				defer func() {
					// the finalizer of a Panic() event panics with the message; anything else is passed on
					if r := recover(); r != nil {
						if _, ok := r.(string); !ok {
							panic(r)
						}
					}
				}()
			}
			e := StartEvent(&l, ev)
			if ev.EvCtx != "" {
				e = e.Ctx(context.WithValue(context.Background(), ctxKey{}, ev.EvCtx))
			}
			for _, op := range ev.Ops {
				e = x.applyEvent(e, op)
			}
			Finish(e, ev)
		}()
		res.Writes = append(res.Writes, append([]Write(nil), rec.W[w0:]...))
		res.Hooks = append(res.Hooks, append([]HookCall(nil), hookLog[h0:]...))
	}
	return res
}

// Describe renders the program for samples and replay files.
func (p *Program) Describe() string {
	var sb strings.Builder
	sb.WriteString("settings=" + p.S.String() + "\n")
	sb.WriteString("logger := zerolog.New(rec)")
	for _, st := range p.Chain {
		sb.WriteString("\n  ." + st.Kind + "(")
		for i, op := range st.Ops {
			if i > 0 {
				sb.WriteString(" ")
			}
			sb.WriteString(op.Describe())
		}
		for _, h := range st.Hooks {
			sb.WriteString(fmt.Sprintf("hook#%d:%s[", h.ID, hookKindNames[h.Kind]))
			for _, op := range h.Ops {
				sb.WriteString(op.Describe())
			}
			sb.WriteString("]")
		}
		if st.Kind == "Level" {
			sb.WriteString(fmt.Sprint(int(st.Level)))
		}
		sb.WriteString(st.CtxVal + ")")
	}
	for _, ev := range p.Events {
		sb.WriteString(fmt.Sprintf("\nlogger.%s[%d]", ev.Entry, ev.Level))
		if ev.Entry == "Err" {
			sb.WriteString("(" + descVal(ev.Err) + ")")
		}
		for _, op := range ev.Ops {
			sb.WriteString("." + op.Describe())
		}
		sb.WriteString(fmt.Sprintf(".%s(%s)", ev.Fin, descVal(ev.Msg)))
	}
	return sb.String()
}

// runPlain executes the fmt-style / io.Writer entry points; it reports whether ev was one of them.
func runPlain(l *zerolog.Logger, ev *EventSpec) bool {
	switch ev.Entry {
	case "Print":
		l.Print(ev.Msg)
	case "Printf":
		l.Printf("%s", ev.Msg)
	case "Println":
		l.Println(ev.Msg)
	case "WriteIO":
		l.Write([]byte(ev.Msg))
	case "WriteIO-nl":
		l.Write([]byte(ev.Msg + "\n"))
	default:
		return false
	}
	return true
}
