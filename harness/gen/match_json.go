package gen

import (
	"bytes"
	"encoding/base64"
	"encoding/hex"
	"encoding/json"
	"fmt"
	"math"
	"math/big"
	"strconv"
	"unicode/utf8"

	"github.com/rs/zerolog"
	"github.com/rs/zerolog/diode/verifh/jsonv"
)

// ToValid maps each invalid UTF-8 byte to U+FFFD (what encoding/json does).
func ToValid(s string) string {
	if utf8.ValidString(s) {
		return s
	}
	var b []byte
	for i := 0; i < len(s); {
		r, size := utf8.DecodeRuneInString(s[i:])
		if r == utf8.RuneError && size == 1 {
			b = append(b, "\xef\xbf\xbd"...)
		} else {
			b = append(b, s[i:i+size]...)
		}
		i += size
	}
	return string(b)
}

// RefIface is the reference rendering of an Interface value: encoding/json, HTML escaping off,
// compact, no trailing newline; or the documented error string.
func RefIface(v interface{}) (raw []byte, errStr string) { return RefIfaceS(v, nil) }

// RefIfaceS is RefIface under the InterfaceMarshalFunc the settings install.
func RefIfaceS(v interface{}, s *Settings) (raw []byte, errStr string) {
	if s != nil && s.IfaceMarshal == 2 {
		return nil, fmt.Sprintf("marshaling error: %v", errCustomMarshal)
	}
	raw, errStr = refIfaceDefault(v)
	if s != nil && s.IfaceMarshal == 1 && errStr == "" {
		raw = append(append([]byte(`{"w":`), raw...), '}')
	}
	return raw, errStr
}

func refIfaceDefault(v interface{}) (raw []byte, errStr string) {
	var buf bytes.Buffer
	enc := json.NewEncoder(&buf)
	enc.SetEscapeHTML(false)
	if err := enc.Encode(v); err != nil {
		return nil, fmt.Sprintf("marshaling error: %v", err)
	}
	b := buf.Bytes()
	return b[:len(b)-1], ""
}

func refFloatText(f float64, bits int, prec int) (text string, special bool) {
	switch {
	case math.IsNaN(f):
		return "NaN", true
	case math.IsInf(f, 1):
		return "+Inf", true
	case math.IsInf(f, -1):
		return "-Inf", true
	}
	if prec == -1 {
		var b []byte
		var err error
		if bits == 32 {
			b, err = json.Marshal(float32(f))
		} else {
			b, err = json.Marshal(f)
		}
		if err != nil {
			panic(err)
		}
		return string(b), false
	}
	return strconv.FormatFloat(f, 'f', prec, bits), false
}

func matchFloat(n *jsonv.Node, f float64, bits int, s *Settings) error {
	want, special := refFloatText(f, bits, s.FloatingPointPrecision)
	if special {
		if n.Kind != jsonv.String || n.Str != want {
			return fmt.Errorf("want string %q, got %s", want, n.Raw)
		}
		return nil
	}
	if n.Kind != jsonv.Number {
		return fmt.Errorf("want number %s, got %s", want, n.Raw)
	}
	if n.Num != want {
		return fmt.Errorf("want number text %s (encoding/json / strconv reference), got %s", want, n.Num)
	}
	if s.FloatingPointPrecision == -1 {
		back, err := strconv.ParseFloat(n.Num, bits)
		if err != nil {
			return fmt.Errorf("number %s does not parse: %v", n.Num, err)
		}
		if bits == 32 {
			if math.Float32bits(float32(back)) != math.Float32bits(float32(f)) {
				return fmt.Errorf("float32 round trip: %s parses to bits %08x, logged %08x", n.Num, math.Float32bits(float32(back)), math.Float32bits(float32(f)))
			}
		} else if math.Float64bits(back) != math.Float64bits(f) {
			return fmt.Errorf("float64 round trip: %s parses to bits %016x, logged %016x", n.Num, math.Float64bits(back), math.Float64bits(f))
		}
	}
	return nil
}

func matchIntText(n *jsonv.Node, want string) error {
	if n.Kind != jsonv.Number || n.Num != want {
		return fmt.Errorf("want integer %s, got %s", want, n.Raw)
	}
	return nil
}

func floorDiv(a, b int64) int64 {
	q := a / b
	if (a%b != 0) && ((a < 0) != (b < 0)) {
		q--
	}
	return q
}

// MatchJSON checks that node n is the specified JSON rendering of intent in.
func MatchJSON(n *jsonv.Node, in *Intent, s *Settings) error {
	switch in.K {
	case INull:
		if n.Kind != jsonv.Null {
			return fmt.Errorf("want null, got %s", n.Raw)
		}
	case IStr, IType:
		if n.Kind != jsonv.String || n.Str != ToValid(in.S) {
			return fmt.Errorf("want string %q, got %s", ToValid(in.S), clip(n.Raw))
		}
	case IBytes:
		if n.Kind != jsonv.String || n.Str != ToValid(string(in.B)) {
			return fmt.Errorf("want string %q (from []byte), got %s", ToValid(string(in.B)), clip(n.Raw))
		}
	case IHex:
		if n.Kind != jsonv.String || n.Str != hex.EncodeToString(in.B) {
			return fmt.Errorf("want hex string %q, got %s", hex.EncodeToString(in.B), clip(n.Raw))
		}
	case IRawJSON:
		if !bytes.Equal(n.Raw, in.B) {
			return fmt.Errorf("want verbatim JSON %s, got %s", clip(in.B), clip(n.Raw))
		}
	case IRawCBOR:
		w := "data:application/cbor;base64," + base64.StdEncoding.EncodeToString(in.B)
		if n.Kind != jsonv.String || n.Str != w {
			return fmt.Errorf("want data URL %q, got %s", w, clip(n.Raw))
		}
	case IBool:
		if n.Kind != jsonv.Bool || n.B != in.Bo {
			return fmt.Errorf("want %v, got %s", in.Bo, n.Raw)
		}
	case IInt:
		return matchIntText(n, big.NewInt(in.I).String())
	case IUint:
		return matchIntText(n, new(big.Int).SetUint64(in.U).String())
	case IF32:
		return matchFloat(n, float64(in.F32), 32, s)
	case IF64:
		return matchFloat(n, in.F64, 64, s)
	case ITime:
		t := in.T
		var div int64
		switch s.TimeFieldFormat {
		case zerolog.TimeFormatUnix:
			return matchIntText(n, strconv.FormatInt(t.Unix(), 10))
		case zerolog.TimeFormatUnixMs:
			div = 1000000
		case zerolog.TimeFormatUnixMicro:
			div = 1000
		case zerolog.TimeFormatUnixNano:
			div = 1
		default:
			w := ToValid(t.Format(s.TimeFieldFormat))
			if n.Kind != jsonv.String || n.Str != w {
				return fmt.Errorf("want time string %q, got %s", w, clip(n.Raw))
			}
			return nil
		}
		ns := t.UnixNano()
		a, b := strconv.FormatInt(ns/div, 10), strconv.FormatInt(floorDiv(ns, div), 10)
		if n.Kind != jsonv.Number || (n.Num != a && n.Num != b) {
			return fmt.Errorf("want unix time %s, got %s", a, n.Raw)
		}
	case IDur:
		if s.DurationFieldInteger {
			return matchIntText(n, strconv.FormatInt(int64(in.D)/int64(s.DurationFieldUnit), 10))
		}
		return matchFloat(n, float64(in.D)/float64(s.DurationFieldUnit), 64, s)
	case IIface:
		raw, es := RefIfaceS(in.V, s)
		if es != "" {
			if n.Kind != jsonv.String || n.Str != ToValid(es) {
				return fmt.Errorf("want marshal-error string %q, got %s", es, clip(n.Raw))
			}
			return nil
		}
		if !bytes.Equal(n.Raw, raw) {
			return fmt.Errorf("want interface JSON %s, got %s", clip(raw), clip(n.Raw))
		}
	case IIP:
		if n.Kind != jsonv.String || n.Str != ToValid(in.IP.String()) {
			return fmt.Errorf("want IP %q, got %s", in.IP.String(), clip(n.Raw))
		}
	case IIPNet:
		if n.Kind != jsonv.String || n.Str != ToValid(in.Net.String()) {
			return fmt.Errorf("want prefix %q, got %s", in.Net.String(), clip(n.Raw))
		}
	case IMAC:
		if n.Kind != jsonv.String || n.Str != ToValid(in.MAC.String()) {
			return fmt.Errorf("want MAC %q, got %s", in.MAC.String(), clip(n.Raw))
		}
	case IArr:
		if n.Kind != jsonv.Array {
			return fmt.Errorf("want array, got %s", clip(n.Raw))
		}
		if len(n.Arr) != len(in.Elems) {
			return fmt.Errorf("want array of %d elements, got %d: %s", len(in.Elems), len(n.Arr), clip(n.Raw))
		}
		for i, e := range in.Elems {
			if err := MatchJSON(n.Arr[i], e, s); err != nil {
				return fmt.Errorf("[%d]: %v", i, err)
			}
		}
	case IObj:
		if n.Kind != jsonv.Object {
			return fmt.Errorf("want object, got %s", clip(n.Raw))
		}
		return MatchFields(n, in.Fields, s)
	case IOpaque:
	default:
		panic("MatchJSON: kind")
	}
	return nil
}

// MatchFields checks the ordered member list of an object against the specified list.
func MatchFields(obj *jsonv.Node, want []KVI, s *Settings) error {
	if len(obj.Obj) != len(want) {
		return fmt.Errorf("want %d members %v, got %d members %v", len(want), keysOf(want), len(obj.Obj), gotKeys(obj))
	}
	for i, w := range want {
		kv := obj.Obj[i]
		if kv.Key != ToValid(w.Key) {
			return fmt.Errorf("member %d: want key %q, got %q (want order %v, got %v)", i, ToValid(w.Key), kv.Key, keysOf(want), gotKeys(obj))
		}
		if err := MatchJSON(kv.Val, w.Val, s); err != nil {
			return fmt.Errorf("member %d (%q): %v", i, w.Key, err)
		}
	}
	return nil
}

func keysOf(f []KVI) []string {
	r := make([]string, len(f))
	for i := range f {
		r[i] = trunc(f[i].Key)
	}
	return r
}

func gotKeys(o *jsonv.Node) []string {
	r := make([]string, len(o.Obj))
	for i := range o.Obj {
		r[i] = trunc(o.Obj[i].Key)
	}
	return r
}

func clip(b []byte) string {
	if len(b) > 160 {
		return fmt.Sprintf("%q...(%d bytes)", b[:120], len(b))
	}
	return fmt.Sprintf("%q", b)
}
