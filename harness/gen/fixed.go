package gen

import (
	"errors"
)

// MkOp builds a keyed scalar/slice op with a given argument and intent.
func MkOp(kind, key string, arg interface{}, in *Intent) *Op {
	op := &Op{M: kind, HasKey: true, Key: key, Args: []interface{}{arg}}
	if in != nil {
		op.Out = []KVI{{key, in}}
	}
	return op
}

// MkElem builds an array element op.
func MkElem(kind string, arg interface{}, in *Intent) *Op {
	return &Op{M: kind, Args: []interface{}{arg}, Elem: in}
}

func MkDict(key string, sub ...*Op) *Op {
	return &Op{M: "Dict", HasKey: true, Key: key, Sub: sub, Out: []KVI{{key, Obj(outOf(sub)...)}}}
}

func MkObject(key string, mode int, sub ...*Op) *Op {
	return &Op{M: "Object", HasKey: true, Key: key, ObjMode: mode, Sub: sub, Out: []KVI{{key, Obj(outOf(sub)...)}}}
}

func MkArray(key string, mode int, elems ...*Op) *Op {
	in := &Intent{K: IArr}
	for _, e := range elems {
		in.Elems = append(in.Elems, e.Elem)
	}
	return &Op{M: "Array", HasKey: true, Key: key, ArrMode: mode, Sub: elems, Out: []KVI{{key, in}}}
}

// MkFieldsMap: single-entry map (ordering trivial).
func MkFieldsMap(key string, val interface{}, in *Intent) *Op {
	return &Op{M: "Fields", FieldsMap: true, Args: []interface{}{map[string]interface{}{key: val}}, Out: []KVI{{key, in}}}
}

func MkFieldsSlice(kvs []interface{}, out []KVI) *Op {
	return &Op{M: "Fields", Args: []interface{}{kvs}, Out: out}
}

// ClassStringProgram drives one string through every string-carrying call and front-end.
func ClassStringProgram(s string, st Settings) *Program {
	g := &G{S: &st}
	e1 := errors.New(s)
	ei, _ := st.errIntent(e1)
	if ei == nil {
		ei = Null()
	}
	_, present := st.errIntent(e1)
	str := func() *Intent { return &Intent{K: IStr, S: s} }
	byt := func() *Intent { return &Intent{K: IBytes, B: []byte(s)} }
	mk := func() []*Op {
		ops := []*Op{
			MkOp("Str", s, s, str()),
			MkOp("Bytes", s, []byte(s), byt()),
			MkOp("Stringer", s, Strn{s}, str()),
			MkOp("Strs", s, []string{s, s}, Arr(str(), str())),
			MkOp("Interface", s, s, &Intent{K: IIface, V: s}),
		}
		if present {
			ops = append(ops, MkOp("AnErr", s, e1, ei))
		} else {
			ops = append(ops, MkOp("AnErr", s, e1, nil))
		}
		return ops
	}
	p := &Program{S: st}
	cops := mk()
	p.Chain = []Step{{Kind: "With", Ops: cops}}
	evOps := mk()
	errElem := ei
	if !present {
		errElem = Null()
	}
	evOps = append(evOps,
		MkDict(s, MkOp("Str", s, s, str()), MkOp("Bytes", s, []byte(s), byt())),
		MkArray(s, 0, MkElem("Str", s, str()), MkElem("Bytes", []byte(s), byt()), MkElem("Err", e1, errElem)),
		MkArray(s, 1, MkElem("Str", s, str())),
		MkObject(s, 0, MkOp("Str", s, s, str())),
		MkFieldsMap(s, s, str()),
		MkFieldsSlice([]interface{}{s, []byte(s), s, e1, s, []string{s}}, []KVI{{s, byt()}, {s, errElem}, {s, Arr(str())}}),
		MkOp("Errs", s, []error{e1, e1}, Arr(errElem, errElem)),
	)
	ev := EventSpec{Entry: "Info", Level: 1, Ops: evOps, Fin: "Msg", Msg: s}
	p.Events = []EventSpec{ev}
	var f []KVI
	if st.LevelFieldName != "" {
		f = append(f, KVI{st.LevelFieldName, Str("info")})
	}
	f = append(f, outOf(cops)...)
	f = append(f, outOf(evOps)...)
	if s != "" {
		f = append(f, KVI{st.MessageFieldName, Str(s)})
	}
	en := st.GlobalLevel <= 1
	p.Expect = []Expected{{Written: en, Enabled: en, Level: 1, Fields: f}}
	p.Containers = 5
	_ = g
	return p
}
