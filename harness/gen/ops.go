package gen

import (
	"encoding/json"
	"fmt"
	"net"
	"reflect"
	"sort"
	"time"

	"github.com/rs/zerolog"
	"github.com/rs/zerolog/diode/verifh/rng"
)

// Front-ends through which a field method can be reached.
const (
	FeEvent = iota
	FeContext
	FeArray
	FeFields
	FeDict
	FeObject
	FeEmbed
	FeFunc
	FeHook
	nFe
)

var FeNames = [...]string{"Event", "Context", "Array", "Fields", "Dict", "Object", "EmbedObject", "Func", "Hook"}

// Op is one API call that adds zero or more fields (keyed) or one array element.
type Op struct {
	M         string // method name
	Key       string // key (when HasKey)
	HasKey    bool
	Args      []interface{} // plain arguments after the key
	Sub       []*Op         // nested ops
	FieldsMap bool          // Fields: map form
	FieldsRaw []interface{} // Fields slice form: exact slice passed
	ObjMode   int           // Object/EmbedObject: 0 value marshaler, 1 pointer marshaler, 2 nil
	ArrMode   int           // Array: 0 zerolog.Arr(), 1 custom LogArrayMarshaler
	Out       []KVI         // intent when used as a keyed op
	Elem      *Intent       // intent when used as an array element
}

// Profile restricts what the generator may produce.
type Profile struct {
	Modelled   bool // only calls with a specified rendering
	UniqueKeys bool // every key generated is unique within the program
	MaxDepth   int
	NoCtxIface bool
	// UpdateAnywhere lets UpdateContext follow any chain step (only for linear chains: the statement of C05
	// restricts it to loggers just produced by With() because of sharing between value copies)
	UpdateAnywhere bool
	// CustomIface lets RandomSettings install a custom InterfaceMarshalFunc (not for checks that compare the two
	// encodings or model where a nil travels through the Interface path)
	CustomIface bool
}

// G is the generation state for one program.
type G struct {
	R    *rng.R
	V    V
	S    *Settings
	P    Profile
	keyN int
	Hits *[nFe]map[string]int // front-end x method hit matrix (shared, evidence)
	// NonTrivial is set when the program has a container or a non-plain byte.
	Containers int
}

var scalarKinds = []string{"Str", "Bytes", "Hex", "RawJSON", "RawCBOR", "Bool", "Int", "Int8", "Int16", "Int32", "Int64",
	"Uint", "Uint8", "Uint16", "Uint32", "Uint64", "Float32", "Float64", "Time", "Dur", "Interface", "Any", "Type",
	"IPAddr", "IPPrefix", "MACAddr", "Stringer", "AnErr"}
var sliceKinds = []string{"Strs", "Bools", "Ints", "Ints8", "Ints16", "Ints32", "Ints64", "Uints", "Uints8", "Uints16", "Uints32", "Uints64",
	"Floats32", "Floats64", "Times", "Durs", "Errs", "Stringers"}
var specialKinds = []string{"Err", "Timestamp", "TimeDiff", "Dict", "Array", "Object", "EmbedObject", "Func", "Fields", "Stack", "Caller"}

var (
	evType  = reflect.TypeOf((*zerolog.Event)(nil))
	cxType  = reflect.TypeOf(zerolog.Context{})
	arType  = reflect.TypeOf((*zerolog.Array)(nil))
	evKinds []string
	cxKinds []string
	arKinds []string
)

func has(t reflect.Type, m string) bool { _, ok := t.MethodByName(m); return ok }

func init() {
	all := append(append(append([]string{}, scalarKinds...), sliceKinds...), specialKinds...)
	for _, k := range all {
		if has(evType, k) {
			evKinds = append(evKinds, k)
		}
		if has(cxType, k) && k != "Timestamp" && k != "Stack" && k != "Caller" {
			cxKinds = append(cxKinds, k)
		}
	}
	for _, k := range append(append([]string{}, scalarKinds...), "Err", "Object", "Dict") {
		if has(arType, k) && k != "AnErr" {
			arKinds = append(arKinds, k)
		}
	}
}

// EventKinds etc. expose the tables (for evidence).
func EventKinds() []string   { return evKinds }
func ContextKinds() []string { return cxKinds }
func ArrayKinds() []string   { return arKinds }

func (g *G) hit(fe int, m string) {
	if g.Hits != nil {
		if g.Hits[fe] == nil {
			g.Hits[fe] = map[string]int{}
		}
		g.Hits[fe][m]++
	}
}

func (g *G) NewKey() string {
	if g.P.UniqueKeys {
		g.keyN++
		return fmt.Sprintf("k%d", g.keyN)
	}
	return g.V.Key()
}

// Ünï is a named type with a non-ASCII identifier.
type Ünï struct{ Ж int }

var hostileTypes = []interface{}{
	struct {
		ID   int    "json:\"id\""
		Name string "json:\"name,omitempty\" x:\"\\\\\""
	}{},
	&struct {
		A int "k:\"a\\nb\\x01é\""
	}{},
	[]struct {
		K string `yaml:"k"`
	}{},
	map[string]struct {
		V bool `q:"\""`
	}{},
	func(struct {
		Z int `z:"<&>"`
	}) {
	},
	Ünï{},
	&Ünï{},
	make(chan struct {
		C int `c:"'"`
	}),
}

func typeName(v interface{}) string {
	if v == nil {
		return "<nil>"
	}
	return reflect.TypeOf(v).String()
}

// scalar generates the argument and intent for a scalar kind.
func (g *G) scalar(kind string) (arg interface{}, in *Intent, present bool) {
	v := &g.V
	present = true
	switch kind {
	case "Str":
		s := v.String()
		return s, &Intent{K: IStr, S: s}, true
	case "Bytes":
		b := v.Bytes()
		return b, &Intent{K: IBytes, B: b}, true
	case "Hex":
		b := v.Bytes()
		return b, &Intent{K: IHex, B: b}, true
	case "RawJSON":
		b := v.RawJSON()
		return b, &Intent{K: IRawJSON, B: b}, true
	case "RawCBOR":
		b := v.RawCBOR()
		return b, &Intent{K: IRawCBOR, B: b}, true
	case "Bool":
		b := v.R.Bool()
		return b, &Intent{K: IBool, Bo: b}, true
	case "Int":
		x := v.Int64()
		return int(x), &Intent{K: IInt, I: x}, true
	case "Int8":
		x := clampI(v.Int64(), 8)
		return int8(x), &Intent{K: IInt, I: x}, true
	case "Int16":
		x := clampI(v.Int64(), 16)
		return int16(x), &Intent{K: IInt, I: x}, true
	case "Int32":
		x := clampI(v.Int64(), 32)
		return int32(x), &Intent{K: IInt, I: x}, true
	case "Int64":
		x := v.Int64()
		return x, &Intent{K: IInt, I: x}, true
	case "Uint":
		x := v.Uint64()
		return uint(x), &Intent{K: IUint, U: x}, true
	case "Uint8":
		x := v.Uint64() & 0xff
		return uint8(x), &Intent{K: IUint, U: x}, true
	case "Uint16":
		x := v.Uint64() & 0xffff
		return uint16(x), &Intent{K: IUint, U: x}, true
	case "Uint32":
		x := v.Uint64() & 0xffffffff
		return uint32(x), &Intent{K: IUint, U: x}, true
	case "Uint64":
		x := v.Uint64()
		return x, &Intent{K: IUint, U: x}, true
	case "Float32":
		f := v.Float32()
		return f, &Intent{K: IF32, F32: f}, true
	case "Float64":
		f := v.Float64()
		return f, &Intent{K: IF64, F64: f}, true
	case "Time":
		t := v.Time()
		return t, &Intent{K: ITime, T: t}, true
	case "Dur":
		d := v.Dur()
		return d, &Intent{K: IDur, D: d}, true
	case "Interface", "Any":
		var x interface{}
		if g.P.Modelled {
			x = v.ifaceValue(2)
		} else {
			x = v.Iface()
		}
		return x, &Intent{K: IIface, V: x}, true
	case "Type":
		x := v.ifaceValue(1)
		if v.R.Chance(1, 3) {
			// types whose printed name needs escaping: struct tags are printed quoted, identifiers may be non-ASCII
			x = hostileTypes[v.R.Intn(len(hostileTypes))]
		}
		return x, &Intent{K: IType, S: typeName(x)}, true
	case "IPAddr":
		ip := v.IP()
		return ip, &Intent{K: IIP, IP: ip}, true
	case "IPPrefix":
		n := v.IPNet()
		return n, &Intent{K: IIPNet, Net: n}, true
	case "MACAddr":
		m := v.MAC()
		return m, &Intent{K: IMAC, MAC: m}, true
	case "Stringer":
		if v.R.Chance(1, 6) {
			return nil, Null(), true
		}
		s := v.String()
		return Strn{s}, &Intent{K: IStr, S: s}, true
	case "AnErr", "Err":
		err := v.Err()
		in, present := g.S.errIntent(err)
		return err, in, present
	}
	panic("scalar: unknown kind " + kind)
}

var sliceElem = map[string]string{"Strs": "Str", "Bools": "Bool", "Ints": "Int", "Ints8": "Int8", "Ints16": "Int16", "Ints32": "Int32", "Ints64": "Int64",
	"Uints": "Uint", "Uints8": "Uint8", "Uints16": "Uint16", "Uints32": "Uint32", "Uints64": "Uint64", "Floats32": "Float32", "Floats64": "Float64",
	"Times": "Time", "Durs": "Dur", "Errs": "AnErr", "Stringers": "Stringer"}

var sliceLens = []int{0, 0, 1, 1, 2, 2, 3, 5, 23, 24, 25}

// slice generates a typed slice argument for a slice kind and its array intent.
func (g *G) slice(kind string, mtype reflect.Type) (arg interface{}, in *Intent) {
	ek := sliceElem[kind]
	n := sliceLens[g.R.Intn(len(sliceLens))]
	if g.V.Big && g.R.Chance(1, 200) {
		n = []int{255, 256, 257}[g.R.Intn(3)]
	}
	if g.V.Big && (ek == "Bool" || ek == "Uint8" || ek == "Int8") && g.R.Chance(1, 60) {
		n = []int{65535, 65536}[g.R.Intn(2)] // the 2-byte / 4-byte length boundary of array headers (cheap element kinds only)
	}
	st := mtype // slice type expected by the method
	sl := reflect.MakeSlice(st, 0, n)
	in = &Intent{K: IArr}
	if n == 0 && g.R.Bool() {
		return reflect.Zero(st).Interface(), in // nil slice
	}
	for i := 0; i < n; i++ {
		a, ein, present := g.scalar(ek)
		if !present {
			ein = Null()
		}
		var rv reflect.Value
		if a == nil {
			rv = reflect.Zero(st.Elem())
		} else {
			rv = reflect.ValueOf(a)
		}
		sl = reflect.Append(sl, rv)
		in.Elems = append(in.Elems, ein)
	}
	return sl.Interface(), in
}

// ObjM is the LogObjectMarshaler used for Object/EmbedObject/Interface-as-object. It applies ops
// to the event it is given.
type ObjM struct {
	Ops []*Op
	X   *Exec
}

func (o ObjM) MarshalZerologObject(e *zerolog.Event) {
	for _, op := range o.Ops {
		o.X.applyEvent(e, op)
	}
}

// PObjM is the pointer-receiver variant.
type PObjM struct {
	Ops []*Op
	X   *Exec
}

func (o *PObjM) MarshalZerologObject(e *zerolog.Event) {
	for _, op := range o.Ops {
		o.X.applyEvent(e, op)
	}
}

// ArrM is a custom LogArrayMarshaler.
type ArrM struct {
	Ops []*Op
	X   *Exec
}

func (a ArrM) MarshalZerologArray(arr *zerolog.Array) {
	for _, op := range a.Ops {
		a.X.applyArray(arr, op)
	}
}

// keyedOp generates one keyed op for front-end fe. stack points at the current stack flag of the
// receiving event/context (Err depends on it, Stack sets it). fe is FeEvent-like (an *Event
// receiver) or FeContext.
func (g *G) keyedOp(fe int, depth int, stack *bool) *Op {
	ctx := fe == FeContext
	kinds := evKinds
	rt := evType
	if ctx {
		kinds = cxKinds
		rt = cxType
	}
	for {
		k := kinds[g.R.Intn(len(kinds))]
		// bias: containers less often with depth
		switch k {
		case "Dict", "Array", "Object", "EmbedObject", "Func", "Fields":
			if depth >= g.P.MaxDepth {
				continue
			}
			if depth > 0 && g.R.Chance(1, 2) {
				continue
			}
		}
		if op := g.makeOp(fe, rt, k, depth, stack); op != nil {
			g.hit(fe, k)
			return op
		}
	}
}

func (g *G) subOps(fe int, depth int, stack *bool) []*Op {
	n := []int{0, 0, 1, 1, 2, 2, 3, 4}[g.R.Intn(8)]
	var ops []*Op
	for i := 0; i < n; i++ {
		ops = append(ops, g.keyedOp(fe, depth, stack))
	}
	return ops
}

func outOf(ops []*Op) []KVI {
	var r []KVI
	for _, o := range ops {
		r = append(r, o.Out...)
	}
	return r
}

// makeOp builds the op for method k on receiver type rt; returns nil if the combination is not
// allowed under the profile.
func (g *G) makeOp(fe int, rt reflect.Type, k string, depth int, stack *bool) *Op {
	ctx := fe == FeContext
	m, _ := rt.MethodByName(k)
	op := &Op{M: k}
	firstArg := 1
	if ctx {
		firstArg = 1 // method expression on value type also has receiver at 0
	}
	switch k {
	case "Err":
		err := g.V.Err()
		op.Args = []interface{}{err}
		if *stack {
			if isRealErr(err) {
				if sin, ok := g.S.stackIntent(); ok {
					op.Out = append(op.Out, KVI{g.S.ErrorStackFieldName, sin})
				}
			}
		}
		if ein, ok := g.S.errIntent(err); ok {
			op.Out = append(op.Out, KVI{g.S.ErrorFieldName, ein})
		}
		return op
	case "Timestamp":
		op.Out = []KVI{{g.S.TimestampFieldName, &Intent{K: ITime, T: g.S.Now}}}
		return op
	case "Stack":
		*stack = true
		return op
	case "Caller":
		// Event.Caller(): the field is added where the call stands; its text comes from CallerMarshalFunc
		if g.S.CallerText == "" {
			return nil
		}
		if g.R.Chance(1, 6) {
			// a skip count that runs past the top of the stack: no caller can be determined, nothing is added
			op.Args = []interface{}{100000 + g.R.Intn(5)}
			return op
		}
		op.Out = []KVI{{g.S.CallerFieldName, Str(g.S.CallerText)}}
		return op
	case "TimeDiff":
		op.HasKey, op.Key = true, g.NewKey()
		t, st := g.V.Time(), g.V.Time()
		var d time.Duration
		if t.After(st) {
			d = t.Sub(st)
		}
		op.Args = []interface{}{t, st}
		op.Out = []KVI{{op.Key, &Intent{K: IDur, D: d}}}
		return op
	case "Dict":
		g.Containers++
		op.HasKey, op.Key = true, g.NewKey()
		ds := false
		op.Sub = g.subOps(FeDict, depth+1, &ds)
		op.Out = []KVI{{op.Key, Obj(outOf(op.Sub)...)}}
		return op
	case "Array":
		g.Containers++
		op.HasKey, op.Key = true, g.NewKey()
		op.ArrMode = g.R.Intn(2)
		n := []int{0, 1, 1, 2, 3, 5}[g.R.Intn(6)]
		in := &Intent{K: IArr}
		for i := 0; i < n; i++ {
			e := g.elemOp(depth + 1)
			op.Sub = append(op.Sub, e)
			in.Elems = append(in.Elems, e.Elem)
		}
		op.Out = []KVI{{op.Key, in}}
		return op
	case "Object":
		g.Containers++
		op.HasKey, op.Key = true, g.NewKey()
		op.ObjMode = []int{0, 0, 1, 1, 2}[g.R.Intn(5)]
		if op.ObjMode == 2 {
			op.Out = []KVI{{op.Key, Null()}}
			return op
		}
		if ctx {
			cs := false
			op.Sub = g.subOps(FeObject, depth+1, &cs)
		} else {
			op.Sub = g.subOps(FeObject, depth+1, stack)
		}
		op.Out = []KVI{{op.Key, Obj(outOf(op.Sub)...)}}
		return op
	case "EmbedObject":
		g.Containers++
		op.ObjMode = []int{0, 0, 1, 1, 2}[g.R.Intn(5)]
		if op.ObjMode == 2 {
			return op
		}
		if ctx {
			cs := false
			op.Sub = g.subOps(FeEmbed, depth+1, &cs)
		} else {
			op.Sub = g.subOps(FeEmbed, depth+1, stack)
		}
		op.Out = outOf(op.Sub)
		return op
	case "Func":
		op.Sub = g.subOps(FeFunc, depth+1, stack)
		op.Out = outOf(op.Sub)
		return op
	case "Fields":
		g.Containers++
		return g.fieldsOp(depth, *stack)
	}
	// plain keyed scalar / slice
	op.HasKey, op.Key = true, g.NewKey()
	if _, ok := sliceElem[k]; ok {
		arg, in := g.slice(k, m.Type.In(firstArg+1))
		op.Args = []interface{}{arg}
		op.Out = []KVI{{op.Key, in}}
		return op
	}
	arg, in, present := g.scalar(k)
	if (k == "Interface" || k == "Any") && depth < g.P.MaxDepth && g.R.Chance(1, 8) {
		// an Interface value that is a LogObjectMarshaler takes the Object route
		g.Containers++
		op.ObjMode = 0
		if ctx {
			cs := false
			op.Sub = g.subOps(FeObject, depth+1, &cs)
		} else {
			op.Sub = g.subOps(FeObject, depth+1, stack)
		}
		op.Args = nil
		op.Out = []KVI{{op.Key, Obj(outOf(op.Sub)...)}}
		op.M = k + "#obj"
		g.hit(fe, op.M)
		return op
	}
	op.Args = []interface{}{arg}
	if present {
		op.Out = []KVI{{op.Key, in}}
	}
	return op
}

func isRealErr(err error) bool {
	if err == nil {
		return false
	}
	if tn, ok := err.(*TypedNilErr); ok && tn == nil {
		return false
	}
	return true
}

// elemOp generates one array element op.
func (g *G) elemOp(depth int) *Op {
	for {
		k := arKinds[g.R.Intn(len(arKinds))]
		op := &Op{M: k}
		switch k {
		case "Object":
			if depth >= g.P.MaxDepth {
				continue
			}
			g.Containers++
			op.ObjMode = g.R.Intn(2)
			ds := false
			op.Sub = g.subOps(FeObject, depth+1, &ds)
			op.Elem = Obj(outOf(op.Sub)...)
		case "Dict":
			if depth >= g.P.MaxDepth {
				continue
			}
			g.Containers++
			ds := false
			op.Sub = g.subOps(FeDict, depth+1, &ds)
			op.Elem = Obj(outOf(op.Sub)...)
		case "Err":
			err := g.V.Err()
			in, present := g.S.errIntent(err)
			if !present {
				in = Null()
			}
			op.Args = []interface{}{err}
			op.Elem = in
		case "Interface":
			if depth < g.P.MaxDepth && g.R.Chance(1, 6) {
				// an element that is a LogObjectMarshaler takes the Object route
				g.Containers++
				op.M = "Interface#obj"
				g.hit(FeArray, op.M)
				op.ObjMode = g.R.Intn(2)
				ds := false
				op.Sub = g.subOps(FeObject, depth+1, &ds)
				op.Elem = Obj(outOf(op.Sub)...)
				break
			}
			arg, in, _ := g.scalar(k)
			op.Args = []interface{}{arg}
			op.Elem = in
		default:
			arg, in, present := g.scalar(k)
			if !present {
				in = Null()
			}
			op.Args = []interface{}{arg}
			op.Elem = in
		}
		g.hit(FeArray, k)
		return op
	}
}

// ---- Fields --------------------------------------------------------------------------------------

var fieldsScalar = []string{"Str", "Bytes", "Bool", "Int", "Int8", "Int16", "Int32", "Int64", "Uint", "Uint8", "Uint16", "Uint32", "Uint64",
	"Float32", "Float64", "Time", "Dur", "IPAddr", "IPPrefix", "MACAddr", "RawJSON", "AnErr"}
var fieldsPtr = []string{"Str", "Bool", "Int", "Int8", "Int16", "Int32", "Int64", "Uint", "Uint8", "Uint16", "Uint32", "Uint64", "Float32", "Float64", "Time", "Dur"}
var fieldsSlice = []string{"Strs", "Bools", "Ints", "Ints8", "Ints16", "Ints32", "Ints64", "Uints", "Uints16", "Uints32", "Uints64", "Floats32", "Floats64", "Times", "Durs", "Errs"}

func ptrTo(v interface{}) interface{} {
	p := reflect.New(reflect.TypeOf(v))
	p.Elem().Set(reflect.ValueOf(v))
	return p.Interface()
}

// fieldsValue generates one (value, intent) for use inside Fields.
func (g *G) fieldsValue(depth int, stack bool) (val interface{}, in *Intent, tag string) {
	r := g.R
	for {
		switch r.Intn(10) {
		case 0, 1, 2, 3:
			k := fieldsScalar[r.Intn(len(fieldsScalar))]
			if k == "AnErr" && g.P.Modelled && stack && g.S.StackMarshal != 0 {
				continue // an error value under Stack(): rendering of the extra stack field is unspecified
			}
			a, in, present := g.scalar(k)
			if !present {
				in = Null()
			}
			if k == "RawJSON" {
				a = json.RawMessage(a.([]byte))
			}
			if k == "AnErr" {
				if a == nil {
					return nil, Null(), "nil"
				}
				return a, in, "error"
			}
			return a, in, k
		case 4:
			k := fieldsPtr[r.Intn(len(fieldsPtr))]
			a, in, _ := g.scalar(k)
			if r.Chance(1, 3) {
				return reflect.Zero(reflect.PtrTo(reflect.TypeOf(a))).Interface(), Null(), "*" + k + "(nil)"
			}
			return ptrTo(a), in, "*" + k
		case 5, 6:
			k := fieldsSlice[r.Intn(len(fieldsSlice))]
			if k == "Errs" && g.P.Modelled && stack && g.S.StackMarshal != 0 {
				continue
			}
			m, _ := evType.MethodByName(k)
			a, in := g.slice(k, m.Type.In(2))
			return a, in, "[]" + sliceElem[k]
		case 7:
			return nil, Null(), "nil"
		case 8:
			if depth >= g.P.MaxDepth {
				continue
			}
			g.Containers++
			ds := false
			sub := g.subOps(FeObject, depth+1, &ds)
			return &ObjM{Ops: sub}, Obj(outOf(sub)...), "LogObjectMarshaler"
		default:
			// default branch: composite values marshaled through InterfaceMarshalFunc
			var x interface{}
			switch r.Intn(5) {
			case 0:
				x = map[string]interface{}{"a": g.V.String(), "b": []int{1, 2}}
			case 1:
				x = []interface{}{g.V.String(), 1.5, nil}
			case 2:
				x = sampleStruct{A: 1, B: g.V.String()}
			case 3:
				x = &sampleStruct{B: "p"}
			default:
				if r.Bool() {
					x = Strn{g.V.String()}
				} else {
					// a MarshalJSON that fails: encoding/json wraps the error (the wrapped text is what both builds show)
					x = FailJSON{g.V.String()}
				}
			}
			return x, &Intent{K: IIface, V: x}, "interface"
		}
	}
}

func (g *G) fieldsOp(depth int, stack bool) *Op {
	r := g.R
	op := &Op{M: "Fields"}
	n := []int{0, 1, 1, 2, 3, 4}[r.Intn(6)]
	if r.Bool() {
		op.FieldsMap = true
		mp := map[string]interface{}{}
		ins := map[string]*Intent{}
		for i := 0; i < n; i++ {
			k := g.NewKey()
			v, in, tag := g.fieldsValue(depth, stack)
			g.hit(FeFields, tag)
			if om, ok := v.(*ObjM); ok {
				op.Sub = append(op.Sub, om.Ops...) // keep reachable for binding the executor
			}
			mp[k] = v
			ins[k] = in
		}
		keys := make([]string, 0, len(mp))
		for k := range mp {
			keys = append(keys, k)
		}
		sort.Strings(keys)
		for _, k := range keys {
			op.Out = append(op.Out, KVI{k, ins[k]})
		}
		op.Args = []interface{}{mp}
		return op
	}
	var sl []interface{}
	for i := 0; i < n; i++ {
		v, in, tag := g.fieldsValue(depth, stack)
		g.hit(FeFields, tag)
		if r.Chance(1, 12) {
			// non-string key: pair skipped
			sl = append(sl, 42, v)
			continue
		}
		k := g.NewKey()
		sl = append(sl, k, v)
		op.Out = append(op.Out, KVI{k, in})
	}
	if r.Chance(1, 6) {
		sl = append(sl, "dangling")
	}
	if n == 0 && r.Bool() {
		sl = nil
	}
	op.Args = []interface{}{sl}
	return op
}

// ---- application ---------------------------------------------------------------------------------

// Exec applies ops to the real API.
type Exec struct {
	// OnObj is invoked when a marshaler / Func / hook runs (used by C05 to read GetCtx).
	OnEvent func(e *zerolog.Event)
}

func (x *Exec) bind(ops []*Op) {}

func rargs(m reflect.Method, first int, args []interface{}) []reflect.Value {
	out := make([]reflect.Value, len(args))
	for i, a := range args {
		if a == nil {
			out[i] = reflect.Zero(m.Type.In(first + i))
		} else {
			out[i] = reflect.ValueOf(a)
		}
	}
	return out
}

func (x *Exec) objArg(op *Op) zerolog.LogObjectMarshaler {
	switch op.ObjMode {
	case 0:
		return ObjM{Ops: op.Sub, X: x}
	case 1:
		return &PObjM{Ops: op.Sub, X: x}
	}
	return nil
}

func (x *Exec) arrArg(op *Op) zerolog.LogArrayMarshaler {
	if op.ArrMode == 1 {
		return ArrM{Ops: op.Sub, X: x}
	}
	a := zerolog.Arr()
	for _, e := range op.Sub {
		a = x.applyArray(a, e)
	}
	return a
}

func (x *Exec) fieldsArg(op *Op) interface{} {
	// bind executor into nested ObjM values
	fix := func(v interface{}) interface{} {
		if om, ok := v.(*ObjM); ok {
			return ObjM{Ops: om.Ops, X: x}
		}
		return v
	}
	switch f := op.Args[0].(type) {
	case map[string]interface{}:
		m := make(map[string]interface{}, len(f))
		for k, v := range f {
			m[k] = fix(v)
		}
		return m
	case []interface{}:
		if f == nil {
			return f
		}
		s := make([]interface{}, len(f))
		for i, v := range f {
			s[i] = fix(v)
		}
		return s
	}
	return op.Args[0]
}

func (x *Exec) applyEvent(e *zerolog.Event, op *Op) *zerolog.Event {
	if x.OnEvent != nil {
		x.OnEvent(e)
	}
	switch op.M {
	case "Dict":
		d := zerolog.Dict()
		for _, s := range op.Sub {
			d = x.applyEvent(d, s)
		}
		return e.Dict(op.Key, d)
	case "Array":
		return e.Array(op.Key, x.arrArg(op))
	case "Object":
		return e.Object(op.Key, x.objArg(op))
	case "EmbedObject":
		return e.EmbedObject(x.objArg(op))
	case "Interface#obj":
		return e.Interface(op.Key, x.objArg(op))
	case "Any#obj":
		return e.Any(op.Key, x.objArg(op))
	case "Func":
		return e.Func(func(e2 *zerolog.Event) {
			for _, s := range op.Sub {
				x.applyEvent(e2, s)
			}
		})
	case "Fields":
		return e.Fields(x.fieldsArg(op))
	case "Str": // fast paths for the most common kinds
		return e.Str(op.Key, op.Args[0].(string))
	}
	m, _ := evType.MethodByName(op.M)
	var in []reflect.Value
	in = append(in, reflect.ValueOf(e))
	if op.HasKey {
		in = append(in, reflect.ValueOf(op.Key))
		in = append(in, rargs(m, 2, op.Args)...)
	} else {
		in = append(in, rargs(m, 1, op.Args)...)
	}
	return m.Func.Call(in)[0].Interface().(*zerolog.Event)
}

func (x *Exec) applyContext(c zerolog.Context, op *Op) zerolog.Context {
	switch op.M {
	case "Dict":
		d := zerolog.Dict()
		for _, s := range op.Sub {
			d = x.applyEvent(d, s)
		}
		return c.Dict(op.Key, d)
	case "Array":
		return c.Array(op.Key, x.arrArg(op))
	case "Object":
		return c.Object(op.Key, x.objArg(op))
	case "EmbedObject":
		return c.EmbedObject(x.objArg(op))
	case "Fields":
		return c.Fields(x.fieldsArg(op))
	case "Interface#obj":
		return c.Interface(op.Key, x.objArg(op))
	case "Any#obj":
		return c.Any(op.Key, x.objArg(op))
	}
	m, _ := cxType.MethodByName(op.M)
	var in []reflect.Value
	in = append(in, reflect.ValueOf(c))
	if op.HasKey {
		in = append(in, reflect.ValueOf(op.Key))
		in = append(in, rargs(m, 2, op.Args)...)
	} else {
		in = append(in, rargs(m, 1, op.Args)...)
	}
	return m.Func.Call(in)[0].Interface().(zerolog.Context)
}

func (x *Exec) applyArray(a *zerolog.Array, op *Op) *zerolog.Array {
	switch op.M {
	case "Object":
		return a.Object(x.objArg(op))
	case "Dict":
		d := zerolog.Dict()
		for _, s := range op.Sub {
			d = x.applyEvent(d, s)
		}
		return a.Dict(d)
	case "Interface#obj":
		return a.Interface(x.objArg(op))
	}
	m, _ := arType.MethodByName(op.M)
	in := append([]reflect.Value{reflect.ValueOf(a)}, rargs(m, 1, op.Args)...)
	return m.Func.Call(in)[0].Interface().(*zerolog.Array)
}

// Describe renders an op compactly for samples / replay files.
func (op *Op) Describe() string {
	s := op.M + "("
	if op.HasKey {
		s += fmt.Sprintf("%q", op.Key)
	}
	for _, a := range op.Args {
		s += "," + descVal(a)
	}
	if len(op.Sub) > 0 || op.M == "Dict" || op.M == "Array" || op.M == "Func" {
		s += "{"
		for i, sub := range op.Sub {
			if i > 0 {
				s += " "
			}
			s += sub.Describe()
		}
		s += "}"
	}
	if op.M == "Object" || op.M == "EmbedObject" {
		s += fmt.Sprintf("#mode%d", op.ObjMode)
	}
	return s + ")"
}

func descVal(a interface{}) string {
	switch v := a.(type) {
	case nil:
		return "nil"
	case string:
		if len(v) > 80 {
			return fmt.Sprintf("%q...(%d bytes)", v[:40], len(v))
		}
		return fmt.Sprintf("%q", v)
	case []byte:
		if len(v) > 80 {
			return fmt.Sprintf("[]byte(%q...(%d bytes))", v[:40], len(v))
		}
		return fmt.Sprintf("[]byte(%q)", v)
	case error:
		if !isRealErr(v) {
			return "typed-nil-error"
		}
		return fmt.Sprintf("err(%q)", trunc(v.Error()))
	case net.IP:
		return fmt.Sprintf("net.IP(%x)", []byte(v))
	case net.HardwareAddr:
		return fmt.Sprintf("MAC(%x)", []byte(v))
	case net.IPNet:
		return fmt.Sprintf("IPNet(%x/%x)", []byte(v.IP), []byte(v.Mask))
	case float32:
		return fmt.Sprintf("float32(%v)", v)
	case float64:
		return fmt.Sprintf("float64(%v)", v)
	case time.Time:
		return "time(" + v.Format(time.RFC3339Nano) + ")"
	case time.Duration:
		return fmt.Sprintf("dur(%d)", int64(v))
	}
	s := fmt.Sprintf("%T(%+v)", a, a)
	return trunc(s)
}

func trunc(s string) string {
	if len(s) > 120 {
		return s[:100] + fmt.Sprintf("...(%d bytes)", len(s))
	}
	return s
}

// KeyedOp / ApplyEvent / ApplyContext / ApplyArray are the exported entry points used by checks that
// drive the API themselves.
func (g *G) KeyedOp(fe int, depth int, stack *bool) *Op { return g.keyedOp(fe, depth, stack) }

func (x *Exec) ApplyEvent(e *zerolog.Event, op *Op) *zerolog.Event { return x.applyEvent(e, op) }

func (x *Exec) ApplyContext(c zerolog.Context, op *Op) zerolog.Context { return x.applyContext(c, op) }
