package gen

import (
	"bytes"
	"fmt"
	"math"

	"github.com/rs/zerolog/diode/verifh/cborv"
)

func wantTag(n *cborv.Node, tag uint64) (*cborv.Node, error) {
	if n.Major != 6 || n.Arg != tag || n.Child == nil {
		return nil, fmt.Errorf("want tag %d, got %s", tag, n)
	}
	return n.Child, nil
}

func wantBytes(n *cborv.Node, major byte, b []byte) error {
	if n.Major != major || n.Indef || !bytes.Equal(n.Bytes, b) {
		return fmt.Errorf("want definite major-%d string %q, got %s", major, clipS(b), n)
	}
	return nil
}

func clipS(b []byte) []byte {
	if len(b) > 60 {
		return append(append([]byte{}, b[:50]...), "..."...)
	}
	return b
}

func matchCInt(n *cborv.Node, v int64) error {
	if v >= 0 {
		if n.Major != 0 || n.Arg != uint64(v) {
			return fmt.Errorf("want unsigned %d, got %s", v, n)
		}
		return nil
	}
	if n.Major != 1 || n.Arg != uint64(-1-v) {
		return fmt.Errorf("want negative %d (major 1 arg %d), got %s", v, uint64(-1-v), n)
	}
	return nil
}

func matchCF64(n *cborv.Node, f float64) error {
	if n.Major != 7 || !n.Float || n.Info != 27 {
		return fmt.Errorf("want float64 %v, got %s", f, n)
	}
	got := math.Float64frombits(n.Bits)
	if math.IsNaN(f) {
		if !math.IsNaN(got) {
			return fmt.Errorf("want NaN, got %s", n)
		}
		return nil
	}
	if n.Bits != math.Float64bits(f) {
		return fmt.Errorf("want float64 bits %016x (%v), got %016x", math.Float64bits(f), f, n.Bits)
	}
	return nil
}

// MatchCBOR checks that item n is the documented binary representation of intent in.
func MatchCBOR(n *cborv.Node, in *Intent, s *Settings) error {
	switch in.K {
	case INull:
		// nil reaches the encoder either as AppendNil (simple value 22) or, through the Interface path
		// (Stringer(nil), nil elements of Errs/Stringers, a marshal func returning nil), as embedded JSON
		// "null" (tag 262). The statement fixes only that nil is null; both are accepted.
		if n.Major == 6 && n.Arg == 262 && n.Child != nil && n.Child.Major == 2 && string(n.Child.Bytes) == "null" {
			return nil
		}
		if s != nil && s.IfaceMarshal != 0 {
			// where the nil travels through the Interface path it is rendered by the installed InterfaceMarshalFunc
			raw, es := RefIfaceS(nil, s)
			if es != "" && wantBytes(n, 3, []byte(es)) == nil {
				return nil
			}
			if es == "" && n.Major == 6 && n.Arg == 262 && n.Child != nil && wantBytes(n.Child, 2, raw) == nil {
				return nil
			}
		}
		if n.Major != 7 || n.Info != 22 {
			return fmt.Errorf("want null, got %s", n)
		}
	case IStr, IType:
		return wantBytes(n, 3, []byte(in.S))
	case IBytes:
		return wantBytes(n, 2, in.B)
	case IHex:
		c, err := wantTag(n, 263)
		if err != nil {
			return err
		}
		return wantBytes(c, 2, in.B)
	case IRawJSON:
		c, err := wantTag(n, 262)
		if err != nil {
			return err
		}
		return wantBytes(c, 2, in.B)
	case IRawCBOR:
		c, err := wantTag(n, 63)
		if err != nil {
			return err
		}
		return wantBytes(c, 2, in.B)
	case IBool:
		want := byte(20)
		if in.Bo {
			want = 21
		}
		if n.Major != 7 || n.Info != want {
			return fmt.Errorf("want bool %v, got %s", in.Bo, n)
		}
	case IInt:
		return matchCInt(n, in.I)
	case IUint:
		if n.Major != 0 || n.Arg != in.U {
			return fmt.Errorf("want unsigned %d (major type 0), got %s", in.U, n)
		}
	case IF32:
		if n.Major != 7 || !n.Float || n.Info != 26 {
			return fmt.Errorf("want float32 %v, got %s", in.F32, n)
		}
		if in.F32 != in.F32 {
			if g := math.Float32frombits(uint32(n.Bits)); g == g {
				return fmt.Errorf("want NaN, got %s", n)
			}
			return nil
		}
		if uint32(n.Bits) != math.Float32bits(in.F32) {
			return fmt.Errorf("want float32 bits %08x (%v), got %08x", math.Float32bits(in.F32), in.F32, uint32(n.Bits))
		}
	case IF64:
		return matchCF64(n, in.F64)
	case ITime:
		c, err := wantTag(n, 1)
		if err != nil {
			return err
		}
		t := in.T
		if c.Major == 0 || c.Major == 1 {
			if t.Nanosecond() != 0 {
				return fmt.Errorf("time with %d ns encoded as integer seconds %s", t.Nanosecond(), c)
			}
			return matchCInt(c, t.Unix())
		}
		if c.Major != 7 || !c.Float || c.Info != 27 {
			return fmt.Errorf("want tag 1 + int or float64, got %s", n)
		}
		got := math.Float64frombits(c.Bits)
		exact := float64(t.Unix()) + float64(t.Nanosecond())*1e-9
		tol := math.Max(1e-6, 4*math.Abs(exact)*1.2e-16)
		if math.Abs(got-exact) > tol {
			return fmt.Errorf("time %v encoded as %v seconds, want %v", t, got, exact)
		}
	case IDur:
		if s.DurationFieldInteger {
			return matchCInt(n, int64(in.D)/int64(s.DurationFieldUnit))
		}
		return matchCF64(n, float64(in.D)/float64(s.DurationFieldUnit))
	case IIface:
		raw, es := RefIfaceS(in.V, s)
		if es != "" {
			return wantBytes(n, 3, []byte(es))
		}
		c, err := wantTag(n, 262)
		if err != nil {
			return err
		}
		return wantBytes(c, 2, raw)
	case IIP:
		c, err := wantTag(n, 260)
		if err != nil {
			return err
		}
		return wantBytes(c, 2, in.IP)
	case IMAC:
		c, err := wantTag(n, 260)
		if err != nil {
			return err
		}
		return wantBytes(c, 2, in.MAC)
	case IIPNet:
		c, err := wantTag(n, 261)
		if err != nil {
			return err
		}
		if c.Major != 5 || c.Indef || len(c.Items) != 2 {
			return fmt.Errorf("want tag 261 + map(1), got %s", n)
		}
		if err := wantBytes(c.Items[0], 2, in.Net.IP); err != nil {
			return err
		}
		ones, _ := in.Net.Mask.Size()
		if c.Items[1].Major != 0 || c.Items[1].Arg != uint64(uint8(ones)) {
			return fmt.Errorf("want mask length %d, got %s", ones, c.Items[1])
		}
	case IArr:
		if n.Major != 4 {
			return fmt.Errorf("want array, got %s", n)
		}
		if len(n.Items) != len(in.Elems) {
			return fmt.Errorf("want array of %d elements, got %d: %s", len(in.Elems), len(n.Items), n)
		}
		for i, e := range in.Elems {
			if err := MatchCBOR(n.Items[i], e, s); err != nil {
				return fmt.Errorf("[%d]: %v", i, err)
			}
		}
	case IObj:
		return MatchCBORFields(n, in.Fields, s)
	case IOpaque:
	default:
		panic("MatchCBOR: kind")
	}
	return nil
}

// MatchCBORFields checks a map item's ordered (text key, value) pairs against the specified list.
func MatchCBORFields(n *cborv.Node, want []KVI, s *Settings) error {
	if n.Major != 5 {
		return fmt.Errorf("want map, got %s", n)
	}
	if !n.Indef {
		return fmt.Errorf("want indefinite-length map, got definite %s", n)
	}
	if len(n.Items) != 2*len(want) {
		var ks []string
		for i := 0; i+1 < len(n.Items); i += 2 {
			ks = append(ks, trunc(string(n.Items[i].Bytes)))
		}
		return fmt.Errorf("want %d members %v, got %d items with keys %v", len(want), keysOf(want), len(n.Items), ks)
	}
	for i, w := range want {
		k, v := n.Items[2*i], n.Items[2*i+1]
		if k.Major != 3 || k.Indef {
			return fmt.Errorf("member %d: key is not a definite text string: %s", i, k)
		}
		if string(k.Bytes) != w.Key {
			return fmt.Errorf("member %d: want key %q, got %q", i, w.Key, trunc(string(k.Bytes)))
		}
		if err := MatchCBOR(v, w.Val, s); err != nil {
			return fmt.Errorf("member %d (%q): %v", i, trunc(w.Key), err)
		}
	}
	return nil
}
