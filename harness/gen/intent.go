// Package gen holds the seeded, structure-aware program generator, the executor that drives the
// real zerolog API, and the intent model (what each call is specified to put into the event).
package gen

import (
	"errors"
	"fmt"
	"net"
	"time"

	"github.com/rs/zerolog"
)

// IKind enumerates the leaf/container kinds of the intent model.
type IKind int

const (
	INull  IKind = iota
	IStr         // text (Go string, arbitrary bytes)
	IBytes       // []byte logged as text
	IHex
	IRawJSON
	IRawCBOR
	IBool
	IInt  // signed, exact
	IUint // unsigned, exact
	IF32
	IF64
	ITime
	IDur
	IIface // marshaled through InterfaceMarshalFunc
	IType  // reflect type name text
	IIP
	IIPNet
	IMAC
	IArr
	IObj
	IOpaque // present, value not modelled (caller etc.)
)

var ikindNames = [...]string{"null", "str", "bytes", "hex", "rawjson", "rawcbor", "bool", "int", "uint", "f32", "f64", "time", "dur", "iface", "type", "ip", "ipnet", "mac", "arr", "obj", "opaque"}

func (k IKind) String() string { return ikindNames[k] }

// Intent is the specified content of one value.
type Intent struct {
	K      IKind
	S      string
	B      []byte
	Bo     bool
	I      int64
	U      uint64
	F32    float32
	F64    float64
	T      time.Time
	D      time.Duration
	V      interface{}
	IP     net.IP
	Net    net.IPNet
	MAC    net.HardwareAddr
	Elems  []*Intent
	Fields []KVI
	// IndefArr: binary encoding uses an indefinite-length array (Array/Errs/Stringers/empty slices).
	Src string // name of the producing method (evidence / diagnostics)
}

type KVI struct {
	Key string
	Val *Intent
}

func Str(s string) *Intent     { return &Intent{K: IStr, S: s} }
func Null() *Intent            { return &Intent{K: INull} }
func Arr(e ...*Intent) *Intent { return &Intent{K: IArr, Elems: e} }
func Obj(f ...KVI) *Intent     { return &Intent{K: IObj, Fields: f} }

// Settings are zerolog's process-global knobs a program runs under.
type Settings struct {
	LevelFieldName, MessageFieldName, TimestampFieldName string
	ErrorFieldName, ErrorStackFieldName                  string
	TimeFieldFormat                                      string
	DurationFieldUnit                                    time.Duration
	DurationFieldInteger                                 bool
	FloatingPointPrecision                               int
	ErrMarshal                                           int
	StackMarshal                                         int
	GlobalLevel                                          zerolog.Level
	Now                                                  time.Time
	IfaceMarshal                                         int // InterfaceMarshalFunc: 0 zerolog's default, 1 wraps the default rendering as {"w":...}, 2 always fails
	CallerFieldName                                      string
	CallerText                                           string // "" = zerolog's default CallerMarshalFunc (Caller ops are then not generated); else a CallerMarshalFunc returning this text
}

func DefaultSettings() Settings {
	return Settings{
		LevelFieldName: "level", MessageFieldName: "message", TimestampFieldName: "time",
		ErrorFieldName: "error", ErrorStackFieldName: "stack",
		TimeFieldFormat: time.RFC3339, DurationFieldUnit: time.Millisecond,
		FloatingPointPrecision: -1, GlobalLevel: zerolog.TraceLevel,
		Now:             time.Unix(1700000000, 123456789).UTC(),
		CallerFieldName: "caller",
	}
}

func (s Settings) String() string {
	return fmt.Sprintf("{lvl=%q msg=%q ts=%q err=%q stack=%q tf=%q du=%d di=%v fpp=%d em=%d sm=%d gl=%d}",
		s.LevelFieldName, s.MessageFieldName, s.TimestampFieldName, s.ErrorFieldName, s.ErrorStackFieldName,
		s.TimeFieldFormat, int64(s.DurationFieldUnit), s.DurationFieldInteger, s.FloatingPointPrecision, s.ErrMarshal, s.StackMarshal, s.GlobalLevel) +
		fmt.Sprintf("{caller=%q callerText=%q im=%d}", s.CallerFieldName, s.CallerText, s.IfaceMarshal)
}

// ---- error marshal variants -------------------------------------------------------------------

// TypedNilErr is an error type whose nil pointer is used as a "typed nil" error.
type TypedNilErr struct{ msg string }

func (e *TypedNilErr) Error() string {
	if e == nil {
		return "<typed-nil>"
	}
	return e.msg
}

// ErrObj is the LogObjectMarshaler returned by ErrMarshal variant 2 / StackMarshal variant 4.
type ErrObj struct{ Msg string }

func (o ErrObj) MarshalZerologObject(e *zerolog.Event) { e.Str("m", o.Msg) }

var constOtherErr = errors.New("other\"err\n")

var errCustomMarshal = errors.New("custom marshal failure \x01\"\xff")

// errMarshalFunc returns the ErrorMarshalFunc for a variant. All variants are idempotent
// (f(f(x)) == f(x) where f(x) is an error) because Event.Errs applies the function twice.
func errMarshalFunc(v int) func(error) interface{} {
	switch v {
	case 1:
		return func(err error) interface{} {
			if err == nil {
				return nil
			}
			return "S:" + err.Error()
		}
	case 2:
		return func(err error) interface{} {
			if err == nil {
				return nil
			}
			return ErrObj{err.Error()}
		}
	case 3:
		return func(err error) interface{} { return nil }
	case 4:
		return func(err error) interface{} { return (*TypedNilErr)(nil) }
	case 5:
		return func(err error) interface{} {
			if err == nil {
				return nil
			}
			return constOtherErr
		}
	case 6:
		// neither error, string nor object marshaler: rendered like Interface()
		return func(err error) interface{} {
			if err == nil {
				return nil
			}
			return map[string]int{"len": len(err.Error())}
		}
	}
	return func(err error) interface{} { return err }
}

func stackMarshalFunc(v int) func(error) interface{} {
	if v == 0 {
		return nil
	}
	// like pkgerrors.MarshalStack: nothing for a nil (or typed-nil) error
	return func(err error) interface{} {
		if !isRealErr(err) {
			return nil
		}
		switch v {
		case 2:
			return "ST\"K\n"
		case 3:
			return errors.New("stk\terr")
		case 4:
			return ErrObj{"stkobj"}
		case 5:
			return []map[string]string{{"func": "f", "line": "1"}, {"func": "g<&>", "line": "2"}}
		case 6:
			return (*TypedNilErr)(nil)
		}
		return nil
	}
}

// Apply installs the settings into zerolog's globals and returns a restore function. Not
// concurrency safe: one executor per process.
func (s *Settings) Apply() (restore func()) {
	o := struct {
		a, b, c, d, e, f string
		g                time.Duration
		h                bool
		i                int
		em               func(error) interface{}
		sm               func(error) interface{}
		ts               func() time.Time
		gl               zerolog.Level
		cf               string
		cm               func(uintptr, string, int) string
		im               func(interface{}) ([]byte, error)
	}{zerolog.LevelFieldName, zerolog.MessageFieldName, zerolog.TimestampFieldName, zerolog.ErrorFieldName,
		zerolog.ErrorStackFieldName, zerolog.TimeFieldFormat, zerolog.DurationFieldUnit, zerolog.DurationFieldInteger,
		zerolog.FloatingPointPrecision, zerolog.ErrorMarshalFunc, zerolog.ErrorStackMarshaler, zerolog.TimestampFunc, zerolog.GlobalLevel(),
		zerolog.CallerFieldName, zerolog.CallerMarshalFunc, zerolog.InterfaceMarshalFunc}
	switch s.IfaceMarshal {
	case 1:
		def := zerolog.InterfaceMarshalFunc
		zerolog.InterfaceMarshalFunc = func(v interface{}) ([]byte, error) {
			b, err := def(v)
			if err != nil {
				return nil, err
			}
			return append(append([]byte(`{"w":`), b...), '}'), nil
		}
	case 2:
		zerolog.InterfaceMarshalFunc = func(v interface{}) ([]byte, error) { return nil, errCustomMarshal }
	}
	if s.CallerFieldName != "" || s.CallerText != "" {
		zerolog.CallerFieldName = s.CallerFieldName
	}
	if s.CallerText != "" {
		txt := s.CallerText
		zerolog.CallerMarshalFunc = func(uintptr, string, int) string { return txt }
	}
	zerolog.LevelFieldName = s.LevelFieldName
	zerolog.MessageFieldName = s.MessageFieldName
	zerolog.TimestampFieldName = s.TimestampFieldName
	zerolog.ErrorFieldName = s.ErrorFieldName
	zerolog.ErrorStackFieldName = s.ErrorStackFieldName
	zerolog.TimeFieldFormat = s.TimeFieldFormat
	zerolog.DurationFieldUnit = s.DurationFieldUnit
	zerolog.DurationFieldInteger = s.DurationFieldInteger
	zerolog.FloatingPointPrecision = s.FloatingPointPrecision
	zerolog.ErrorMarshalFunc = errMarshalFunc(s.ErrMarshal)
	zerolog.ErrorStackMarshaler = stackMarshalFunc(s.StackMarshal)
	now := s.Now
	zerolog.TimestampFunc = func() time.Time { return now }
	zerolog.SetGlobalLevel(s.GlobalLevel)
	return func() {
		zerolog.LevelFieldName, zerolog.MessageFieldName, zerolog.TimestampFieldName, zerolog.ErrorFieldName = o.a, o.b, o.c, o.d
		zerolog.ErrorStackFieldName, zerolog.TimeFieldFormat = o.e, o.f
		zerolog.DurationFieldUnit, zerolog.DurationFieldInteger, zerolog.FloatingPointPrecision = o.g, o.h, o.i
		zerolog.ErrorMarshalFunc, zerolog.ErrorStackMarshaler, zerolog.TimestampFunc = o.em, o.sm, o.ts
		zerolog.SetGlobalLevel(o.gl)
		zerolog.CallerFieldName, zerolog.CallerMarshalFunc = o.cf, o.cm
		zerolog.InterfaceMarshalFunc = o.im
	}
}

// errIntent returns how ErrorMarshalFunc(err) is specified to be rendered as a value
// (present=false means: no field for Err/AnErr; in arrays / Fields it is null instead).
func (s *Settings) errIntent(err error) (in *Intent, present bool) {
	isNil := err == nil
	if tn, ok := err.(*TypedNilErr); ok && tn == nil {
		// a typed nil is still passed to the marshal func (err != nil as an interface)
		isNil = false
		switch s.ErrMarshal {
		case 0:
			return Null(), false
		case 1:
			return Str("S:<typed-nil>"), true
		case 2:
			return Obj(KVI{"m", Str("<typed-nil>")}), true
		case 3, 4:
			return Null(), false
		case 5:
			return Str(constOtherErr.Error()), true
		case 6:
			return &Intent{K: IIface, V: map[string]int{"len": len("<typed-nil>")}}, true
		}
	}
	if isNil {
		// marshal func receives nil
		switch s.ErrMarshal {
		case 4:
			return Null(), false
		}
		return Null(), false
	}
	switch s.ErrMarshal {
	case 0:
		return Str(err.Error()), true
	case 1:
		return Str("S:" + err.Error()), true
	case 2:
		return Obj(KVI{"m", Str(err.Error())}), true
	case 3, 4:
		return Null(), false
	case 5:
		return Str(constOtherErr.Error()), true
	case 6:
		return &Intent{K: IIface, V: map[string]int{"len": len(err.Error())}}, true
	}
	panic("bad ErrMarshal")
}

// stackIntent: the field Event.Err / Context.Err add before the error field when the stack flag is
// on and a stack marshaler is configured.
func (s *Settings) stackIntent() (in *Intent, present bool) {
	switch s.StackMarshal {
	case 0, 1, 6:
		return nil, false
	case 2:
		return Str("ST\"K\n"), true
	case 3:
		return Str("stk\terr"), true
	case 4:
		return Obj(KVI{"m", Str("stkobj")}), true
	case 5:
		return &Intent{K: IIface, V: []map[string]string{{"func": "f", "line": "1"}, {"func": "g<&>", "line": "2"}}}, true
	}
	panic("bad StackMarshal")
}
