package gen

import (
	"encoding/json"
	"reflect"

	"github.com/rs/zerolog/diode/verifh/jsonv"
)

var elemSlice = map[string]string{}

func init() {
	for s, e := range sliceElem {
		elemSlice[e] = s
	}
}

var inFields = map[string]bool{}
var inFieldsPtr = map[string]bool{}

func init() {
	for _, k := range fieldsScalar {
		inFields[k] = true
	}
	for _, k := range fieldsPtr {
		inFieldsPtr[k] = true
	}
}

// MetaKinds are the scalar kinds the metamorphic (entry-point equality) programs range over.
func MetaKinds() []string { return scalarKinds }

// MetamorphicProgram logs one (kind, value) through every entry point that can carry it.
// Member names: c context, e event, d Dict.x, a Array[0], o Object.x, f Func, m Fields(map),
// s Fields(slice), p Fields(pointer), v slice-variant[0].
func (g *G) MetamorphicProgram(kind string) *Program {
	arg, in, present := g.scalar(kind)
	st := *g.S
	mk := func(key string) *Op {
		if present {
			return MkOp(kind, key, arg, in)
		}
		return MkOp(kind, key, arg, nil)
	}
	elemIn := in
	if !present {
		elemIn = Null()
	}
	p := &Program{S: st}
	var ctxOut []KVI
	ak := kind
	if kind == "AnErr" {
		ak = "Err"
	}
	objIface := func(key string) *Op { // Interface(key, marshaler): the object route
		return &Op{M: "Interface#obj", HasKey: true, Key: key, Sub: []*Op{mk("x")}, Out: []KVI{{key, Obj(mk("x").Out...)}}}
	}
	if has(cxType, kind) {
		cops := []*Op{mk("c"), MkDict("cd", mk("x")), MkObject("co", g.R.Intn(2), mk("x")), objIface("cio"),
			{M: "EmbedObject", ObjMode: g.R.Intn(2), Sub: []*Op{mk("cg")}, Out: mk("cg").Out}}
		if has(arType, ak) && kind != "Any" {
			cops = append(cops, MkArray("ca", g.R.Intn(2), MkElem(ak, arg, elemIn)))
		}
		if inFields[kind] {
			var fv interface{} = arg
			if kind == "RawJSON" {
				fv = json.RawMessage(arg.([]byte))
			}
			cops = append(cops, MkFieldsMap("cm", fv, elemIn))
		}
		if sk, ok := elemSlice[kind]; ok && has(cxType, sk) {
			m, _ := cxType.MethodByName(sk)
			stp := m.Type.In(2)
			sl := reflect.MakeSlice(stp, 0, 1)
			for rep := 0; rep < 3; rep++ { // three copies: elements after the first take another path through the slice encoders
				if arg == nil {
					sl = reflect.Append(sl, reflect.Zero(stp.Elem()))
				} else {
					sl = reflect.Append(sl, reflect.ValueOf(arg))
				}
			}
			cops = append(cops, MkOp(sk, "cv", sl.Interface(), Arr(elemIn, elemIn, elemIn)))
			g.hit(FeContext, sk)
		}
		p.Chain = []Step{{Kind: "With", Ops: cops}}
		ctxOut = outOf(cops)
		g.hit(FeContext, kind)
	}
	// a hook adds the value too
	hk := &HookSpec{ID: 1, Kind: []int{0, 5}[g.R.Intn(2)], Ops: []*Op{mk("h")}, Out: mk("h").Out}
	p.Chain = append(p.Chain, Step{Kind: "Hook", Hooks: []*HookSpec{hk}})
	g.hit(FeHook, kind)
	ops := []*Op{mk("e"), MkDict("d", mk("x")), MkObject("o", g.R.Intn(2), mk("x")), {M: "Func", Sub: []*Op{mk("f")}, Out: mk("f").Out},
		{M: "EmbedObject", ObjMode: g.R.Intn(2), Sub: []*Op{mk("g")}, Out: mk("g").Out}, objIface("io")}
	g.hit(FeEvent, kind)
	g.hit(FeDict, kind)
	g.hit(FeObject, kind)
	g.hit(FeFunc, kind)
	if has(arType, ak) && kind != "Any" {
		ops = append(ops, MkArray("a", g.R.Intn(2), MkElem(ak, arg, elemIn)))
		g.hit(FeArray, ak)
	}
	// inside containers of an array: Arr().Dict(..), Arr().Object(..), Arr().Interface(marshaler)
	ops = append(ops,
		MkArray("ad", g.R.Intn(2), &Op{M: "Dict", Sub: []*Op{mk("x")}, Elem: Obj(mk("x").Out...)}),
		MkArray("ao", g.R.Intn(2), &Op{M: "Object", ObjMode: g.R.Intn(2), Sub: []*Op{mk("x")}, Elem: Obj(mk("x").Out...)}),
		MkArray("aio", g.R.Intn(2), &Op{M: "Interface#obj", ObjMode: g.R.Intn(2), Sub: []*Op{mk("x")}, Elem: Obj(mk("x").Out...)}))
	if inFields[kind] {
		var fv interface{} = arg
		if kind == "RawJSON" {
			fv = json.RawMessage(arg.([]byte))
		}
		fin := elemIn
		ops = append(ops, MkFieldsMap("m", fv, fin), MkFieldsSlice([]interface{}{"s", fv}, []KVI{{"s", fin}}))
		g.hit(FeFields, kind)
		if inFieldsPtr[kind] {
			ops = append(ops, MkFieldsMap("p", ptrTo(arg), fin))
			g.hit(FeFields, "*"+kind)
		}
	}
	if sk, ok := elemSlice[kind]; ok && has(evType, sk) {
		m, _ := evType.MethodByName(sk)
		stp := m.Type.In(2)
		sl := reflect.MakeSlice(stp, 0, 1)
		for rep := 0; rep < 3; rep++ {
			if arg == nil {
				sl = reflect.Append(sl, reflect.Zero(stp.Elem()))
			} else {
				sl = reflect.Append(sl, reflect.ValueOf(arg))
			}
		}
		ops = append(ops, MkOp(sk, "v", sl.Interface(), Arr(elemIn, elemIn, elemIn)))
		g.hit(FeEvent, sk)
	}
	ev := EventSpec{Entry: "Log", Level: 6, Ops: ops, Fin: "Send"}
	p.Events = []EventSpec{ev}
	f := append([]KVI{}, ctxOut...)
	f = append(f, outOf(ops)...)
	f = append(f, hk.Out...)
	en := st.GlobalLevel <= 6
	p.Expect = []Expected{{Written: en, Enabled: en, Level: 6, Fields: f}}
	p.Containers = 3
	return p
}

// MetaOccurrences extracts the raw bytes of every occurrence of the value in a metamorphic event.
func MetaOccurrences(obj *jsonv.Node) map[string][]byte {
	r := map[string][]byte{}
	for _, kv := range obj.Obj {
		switch kv.Key {
		case "c", "e", "f", "m", "s", "p", "g", "h", "cg", "cm":
			r[kv.Key] = kv.Val.Raw
		case "d", "o", "io", "cd", "co", "cio":
			if kv.Val.Kind == jsonv.Object && len(kv.Val.Obj) == 1 {
				r[kv.Key] = kv.Val.Obj[0].Val.Raw
			}
		case "a", "ca":
			if kv.Val.Kind == jsonv.Array && len(kv.Val.Arr) == 1 {
				r[kv.Key] = kv.Val.Arr[0].Raw
			}
		case "v", "cv":
			// the slice variant carries the value three times: the last element is the one compared (the first
			// has been compared with itself through MatchFields already)
			if kv.Val.Kind == jsonv.Array && len(kv.Val.Arr) == 3 {
				r[kv.Key] = kv.Val.Arr[2].Raw
			}
		case "ad", "ao", "aio":
			if kv.Val.Kind == jsonv.Array && len(kv.Val.Arr) == 1 {
				if el := kv.Val.Arr[0]; el.Kind == jsonv.Object && len(el.Obj) == 1 {
					r[kv.Key] = el.Obj[0].Val.Raw
				}
			}
		}
	}
	return r
}
