package gen

import (
	"context"
	"errors"
	"io"

	"github.com/rs/zerolog"
)

type staleArr struct{}

func (staleArr) MarshalZerologArray(a *zerolog.Array) { a.Str("stale-m").Int(9) }

type staleObj struct{}

func (staleObj) MarshalZerologObject(e *zerolog.Event) { e.Str("stale-k", "stale-v") }

type discardHook struct{}

func (discardHook) Run(e *zerolog.Event, l zerolog.Level, m string) { e.Discard() }

type staleKey struct{}

var (
	errStale     = errors.New("stale-error")
	staleCtx     = context.WithValue(context.Background(), staleKey{}, "stale-ctx")
	histFiltered = zerolog.New(io.Discard).Level(zerolog.ErrorLevel)
	histDiscard  = zerolog.New(io.Discard).Hook(discardHook{})
	histSink     = zerolog.New(io.Discard)
)

// NHistories is the number of history actions.
const NHistories = 10

// History runs action k (1..NHistories, anything else: none): what the goroutine did before the event under test -
// events that were filtered out, discarded (by the caller or by a hook), panicking, written elsewhere or never
// finished, each handed arrays, dictionaries, objects, a stack flag, a Go context and skip counts of its own. Events,
// arrays and dictionaries are pooled: none of this may show in what is logged next.
func History(k int) {
	l := histFiltered
	switch k {
	case 1:
		l.Debug().Array("a", zerolog.Arr().Str("stale").Int(7)).Dict("d", zerolog.Dict().Str("stale", "x")).Msg("filtered")
	case 2:
		l.Error().Array("a", zerolog.Arr().Str("stale").Int(7)).Dict("d", zerolog.Dict().Str("stale", "x")).Discard().Msg("discarded")
	case 3:
		l.Debug().Array("a", staleArr{}).Object("o", staleObj{}).EmbedObject(staleObj{}).Interface("i", staleObj{}).Send()
	case 4:
		_ = l.With().Array("a", zerolog.Arr().Str("stale")).Dict("d", zerolog.Dict().Int("stale", 1)).Logger()
	case 5:
		l.Debug().Array("a", zerolog.Arr().Dict(zerolog.Dict().Str("stale", "y")).Object(staleObj{})).Fields(map[string]interface{}{"stale": 1}).Msg("filtered")
	case 6:
		func() {
			defer func() { recover() }()
			l.Panic().Array("a", zerolog.Arr().Str("stale")).Msg("stale-panic")
		}()
	case 7:
		histDiscard.Print("stale-print")
		histDiscard.Error().Stack().Err(errStale).CallerSkipFrame(3).Msg("hook-discarded")
	case 8:
		func() {
			defer func() { recover() }()
			histDiscard.Panic().Str("stale", "z").Msg("hook-discarded-panic")
		}()
	case 9:
		histSink.Info().Stack().Err(errStale).Caller(1).CallerSkipFrame(2).Ctx(staleCtx).Array("a", staleArr{}).Msgf("%s", "elsewhere")
	case 10:
		// an event and containers that are started and never finished
		_ = histSink.Warn().Str("stale", "unfinished").Dict("d", zerolog.Dict().Str("stale", "u"))
		_ = zerolog.Arr().Str("stale-unused")
		_ = zerolog.Dict().Str("stale", "unused")
	}
}
