package gen

import (
	"encoding/json"
	"errors"
	"math"
	"net"
	"strings"
	"time"

	"github.com/rs/zerolog/diode/verifh/rng"
)

// ClassAlphabet has one representative of every escaping / UTF-8 / structural class.
var ClassAlphabet = []string{
	"a", " ", "\"", "\\", "/", "<", "&", "\b", "\f", "\n", "\r", "\t", "\x00", "\x1f", "\x7f",
	"\u00e9", "\u20ac", "\U0001F600", "\u2028", "\ufffd",
	"\x80", "\xc0\xaf", "\xe2\x82", "\xed\xa0\x80", "\xf5", "\xff",
	"{", "}", "[", ",", ":",
}

// NClassStrings(L) = number of strings of at most L pieces.
func NClassStrings(L int) int {
	n, p := 0, 1
	for l := 0; l <= L; l++ {
		n += p
		p *= len(ClassAlphabet)
	}
	return n
}

// ClassString returns the idx-th string in length-then-lexicographic order over the alphabet.
func ClassString(idx int) string {
	k := len(ClassAlphabet)
	l, p := 0, 1
	for idx >= p {
		idx -= p
		p *= k
		l++
	}
	parts := make([]string, l)
	for i := l - 1; i >= 0; i-- {
		parts[i] = ClassAlphabet[idx%k]
		idx /= k
	}
	return strings.Join(parts, "")
}

// V is the value generator state.
type V struct {
	R *rng.R
	// Domain restrictions
	CanonicalNet   bool // only 4/16-byte IPs, 6-byte MACs, canonical prefixes (C08 domain)
	TimeUnixNano   bool // times within the UnixNano range (UNIX* formats)
	Time1970to2100 bool
	MaxStr         int      // cap for random long strings
	Big            bool     // allow > 500 B / > 64 KiB payloads
	SafeKeys       bool     // keys from [A-Za-z0-9_.-]* (incl. the empty key) plus two multi-byte letters
	AvoidKeys      []string // keys never generated (SafeKeys mode)
}

func (v *V) String() string {
	r := v.R
	switch r.Intn(20) {
	case 0:
		return ""
	case 1, 2, 3, 4, 5, 6, 7:
		// plain ascii identifier-ish
		n := 1 + r.Intn(12)
		b := make([]byte, n)
		for i := range b {
			b[i] = "abcdefghijklmnopqrstuvwxyzABCXYZ0123456789_-. "[r.Intn(46)]
		}
		return string(b)
	case 8, 9, 10, 11, 12:
		n := 1 + r.Intn(6)
		var sb strings.Builder
		for i := 0; i < n; i++ {
			sb.WriteString(ClassAlphabet[r.Intn(len(ClassAlphabet))])
		}
		return sb.String()
	case 13, 14:
		// random bytes
		n := 1 + r.Intn(10)
		b := make([]byte, n)
		for i := range b {
			b[i] = byte(r.U64())
		}
		return string(b)
	case 15:
		// length-boundary strings (CBOR definite lengths 23/24, 255/256)
		n := []int{22, 23, 24, 25, 254, 255, 256, 257}[r.Intn(8)]
		return v.filler(n)
	case 16:
		if v.Big {
			n := []int{480, 499, 500, 501, 520, 65534, 65535, 65536, 65537, 70000}[r.Intn(10)]
			return v.filler(n)
		}
		return v.filler(30 + r.Intn(40))
	default:
		n := r.Intn(40)
		var sb strings.Builder
		for i := 0; i < n; i++ {
			if r.Chance(1, 6) {
				sb.WriteString(ClassAlphabet[r.Intn(len(ClassAlphabet))])
			} else {
				sb.WriteByte(byte('a' + r.Intn(26)))
			}
		}
		return sb.String()
	}
}

func (v *V) filler(n int) string {
	b := make([]byte, n)
	for i := range b {
		b[i] = byte('a' + (i*7+n)%26)
	}
	if n > 3 && v.R.Chance(1, 2) {
		b[n/2] = '"'
		b[n-1] = '\xff'
	}
	return string(b)
}

func (v *V) Bytes() []byte {
	if v.R.Chance(1, 12) {
		return nil
	}
	return []byte(v.String())
}

// Key: mostly short, sometimes hostile.
func (v *V) Key() string {
	r := v.R
	if v.SafeKeys {
		for {
			n := r.Intn(7)
			if r.Chance(1, 25) {
				n = 0
			}
			var sb strings.Builder
			for i := 0; i < n; i++ {
				if r.Chance(1, 20) {
					sb.WriteString([]string{"\u00e9", "\u4e16"}[r.Intn(2)])
				} else {
					sb.WriteByte("abcdefghijklmnopqrstuvwxyzABCXYZ0123456789_.-"[r.Intn(45)])
				}
			}
			k := sb.String()
			bad := false
			for _, a := range v.AvoidKeys {
				if a == k {
					bad = true
				}
			}
			if !bad {
				return k
			}
		}
	}
	if r.Chance(3, 4) {
		n := 1 + r.Intn(6)
		b := make([]byte, n)
		for i := range b {
			b[i] = "abcdefghijklmnopqrstuvwxyz_0123"[r.Intn(31)]
		}
		return string(b)
	}
	return v.String()
}

var intEdges = []int64{0, 1, -1, 2, -2, 22, 23, 24, 25, -23, -24, -25, -26, 127, 128, -128, -129, 255, 256, -256, -257,
	32767, 32768, -32768, -32769, 65535, 65536, -65536, -65537, 2147483647, 2147483648, -2147483648, -2147483649,
	4294967295, 4294967296, -4294967296, -4294967297, math.MaxInt64, math.MaxInt64 - 1, math.MinInt64, math.MinInt64 + 1}

func (v *V) Int64() int64 {
	r := v.R
	switch r.Intn(4) {
	case 0:
		return intEdges[r.Intn(len(intEdges))]
	case 1:
		sh := uint(r.Intn(64))
		x := int64(1) << sh
		x += int64(r.Intn(5)) - 2
		if r.Bool() {
			x = -x
		}
		return x
	case 2:
		return int64(r.Intn(2000)) - 1000
	}
	return int64(r.U64())
}

func (v *V) Uint64() uint64 {
	r := v.R
	switch r.Intn(4) {
	case 0:
		return []uint64{0, 1, 23, 24, 255, 256, 65535, 65536, 1<<32 - 1, 1 << 32, 1<<63 - 1, 1 << 63, 1<<63 + 5, math.MaxUint64, math.MaxUint64 - 1}[r.Intn(15)]
	case 1:
		sh := uint(r.Intn(64))
		return (uint64(1) << sh) + uint64(r.Intn(5)) - 2
	case 2:
		return uint64(r.Intn(1000))
	}
	return r.U64()
}

func clampI(x int64, bits uint) int64 {
	if bits == 64 {
		return x
	}
	// wrap into range: keep the low bits (so edges of every width are hit through truncation)
	sh := 64 - bits
	return (x << sh) >> sh
}

var f64Edges = []float64{0, math.Copysign(0, -1), 1, -1, 0.1, -1.1, 1e-6, 9.999999999999999e-7, 1.0000000000000002e-6, 1e21, 9.999999999999999e20, 1.0000000000000001e21,
	1e-7, 1e-9, 1.5e-9, 1e20, 1e22, math.MaxFloat64, -math.MaxFloat64, math.SmallestNonzeroFloat64, 4.9e-324, 2.2250738585072014e-308, 2.225073858507201e-308,
	math.NaN(), math.Inf(1), math.Inf(-1), 123456789.125, 0.3, 1.0 / 3, 100, 1e15, 1e16, 12345678901234567890}

func (v *V) Float64() float64 {
	r := v.R
	switch r.Intn(5) {
	case 0:
		return f64Edges[r.Intn(len(f64Edges))]
	case 1:
		return math.Float64frombits(r.U64())
	case 2:
		// around the format switch points
		base := []float64{1e-6, 1e21}[r.Intn(2)]
		b := math.Float64bits(base) + uint64(r.Intn(9)) - 4
		f := math.Float64frombits(b)
		if r.Bool() {
			f = -f
		}
		return f
	case 3:
		return float64(r.Intn(200000)-100000) / 100
	}
	return (r.Float() - 0.5) * math.Pow(10, float64(r.Intn(60)-30))
}

var f32Edges = []float32{0, float32(math.Copysign(0, -1)), 1, -1, 0.1, -1.1, 1e-6, 1e21, 1e-7, 1e-9, 1e20, 1e22, math.MaxFloat32, -math.MaxFloat32,
	math.SmallestNonzeroFloat32, float32(math.NaN()), float32(math.Inf(1)), float32(math.Inf(-1)), 16777216, 16777217, 0.3, 3.4e38, 1.17549435e-38}

func (v *V) Float32() float32 {
	r := v.R
	switch r.Intn(5) {
	case 0:
		return f32Edges[r.Intn(len(f32Edges))]
	case 1:
		return math.Float32frombits(uint32(r.U64()))
	case 2:
		base := []float32{1e-6, 1e21}[r.Intn(2)]
		b := math.Float32bits(base) + uint32(r.Intn(9)) - 4
		f := math.Float32frombits(b)
		if r.Bool() {
			f = -f
		}
		return f
	case 3:
		return float32(r.Intn(200000)-100000) / 100
	}
	return float32((r.Float() - 0.5) * math.Pow(10, float64(r.Intn(60)-30)))
}

var zones = []*time.Location{time.UTC, time.FixedZone("", 3600), time.FixedZone("XST", -5*3600-1800), time.FixedZone("P", 14*3600),
	// zone names are arbitrary strings chosen by the caller; layouts with MST print them
	time.FixedZone("Q\"Z", 2*3600), time.FixedZone("B\\S", -2*3600), time.FixedZone("N\nL", 0), time.FixedZone("É\xff", 1800)}

func (v *V) Time() time.Time {
	r := v.R
	var t time.Time
	switch r.Intn(8) {
	case 0:
		t = time.Unix(0, 0)
	case 1:
		t = time.Unix(int64(r.Intn(2000000000)), 0)
	case 2:
		t = time.Unix(int64(r.Intn(2000000000)), int64(r.Intn(1000000000)))
	case 3:
		t = time.Unix(int64(r.Intn(2000000000)), int64(r.Intn(1000))*1000000)
	case 4:
		t = time.Unix(int64(r.Intn(2000000000)), int64(r.Intn(1000000))*1000)
	case 5:
		// pre-1970
		t = time.Unix(-int64(r.Intn(2000000000)), int64(r.Intn(1000000000)))
	case 6:
		if v.TimeUnixNano || v.Time1970to2100 {
			t = time.Unix(4102444799, 999999999) // end of 2099
		} else {
			t = []time.Time{time.Date(1, 1, 1, 0, 0, 0, 0, time.UTC), time.Date(9999, 12, 31, 23, 59, 59, 999999999, time.UTC), {}}[r.Intn(3)]
		}
	default:
		t = time.Unix(1700000000+int64(r.Intn(100000)), int64(r.Intn(1000000000)))
	}
	if v.Time1970to2100 && (t.Unix() < -4102444800 || t.Unix() > 4102444799) {
		// C08 domain: instants within 130 years of the epoch on either side (1840-2100), where a float64
		// number of seconds still resolves better than one microsecond
		t = time.Unix(t.Unix()%4102444800, int64(t.Nanosecond()))
	}
	return t.In(zones[r.Intn(len(zones))])
}

func (v *V) Dur() time.Duration {
	r := v.R
	switch r.Intn(6) {
	case 0:
		return []time.Duration{0, 1, -1, math.MaxInt64, math.MinInt64, time.Millisecond, time.Second, 1500 * time.Microsecond}[r.Intn(8)]
	case 1:
		return time.Duration(r.Intn(100000)) * time.Microsecond
	case 2:
		return -time.Duration(r.Intn(100000)) * time.Millisecond
	case 3:
		return time.Duration(r.U64())
	}
	return time.Duration(r.Intn(1000000000))
}

func (v *V) IP() net.IP {
	r := v.R
	n := 4
	switch r.Intn(8) {
	case 0, 1, 2:
		n = 16
	case 3:
		if !v.CanonicalNet {
			n = []int{0, 1, 5, 6, 15, 17, 32}[r.Intn(7)]
		}
	case 4:
		if !v.CanonicalNet {
			return nil
		}
	}
	ip := make(net.IP, n)
	for i := range ip {
		ip[i] = byte(r.U64())
	}
	if n == 16 {
		switch r.Intn(5) {
		case 0: // v4-mapped
			copy(ip, net.IPv4(1, 2, 3, 4).To16())
			ip[15] = byte(r.U64())
		case 1: // zero run for :: compression
			for i := 2; i < 12; i++ {
				ip[i] = 0
			}
		case 2:
			for i := range ip {
				ip[i] = 0
			}
		}
	}
	return ip
}

func (v *V) IPNet() net.IPNet {
	r := v.R
	if v.CanonicalNet || r.Chance(3, 4) {
		bits := 32
		if r.Chance(1, 3) {
			bits = 128
		}
		ones := r.Intn(bits + 1)
		ip := make(net.IP, bits/8)
		for i := range ip {
			ip[i] = byte(r.U64())
		}
		if bits == 128 && r.Chance(1, 5) {
			// an IPv4-mapped IPv6 prefix (what net.ParseCIDR("::ffff:10.1.2.0/120") returns): 16-byte address and
			// mask, printed in IPv4 notation
			copy(ip, net.IPv4(byte(r.U64()), byte(r.U64()), byte(r.U64()), byte(r.U64())).To16())
			ones = 96 + r.Intn(33)
		}
		mask := net.CIDRMask(ones, bits)
		if v.CanonicalNet || r.Bool() {
			ip = ip.Mask(mask)
		}
		return net.IPNet{IP: ip, Mask: mask}
	}
	// non-canonical: mismatched lengths, non-contiguous masks, nil
	switch r.Intn(4) {
	case 0:
		return net.IPNet{}
	case 1:
		return net.IPNet{IP: net.IPv4(10, 0, 0, 1), Mask: net.CIDRMask(8, 32)} // 16-byte IP with 4-byte mask
	case 2:
		return net.IPNet{IP: net.IP{10, 1, 2, 3}, Mask: net.IPMask{255, 0, 255, 0}}
	}
	return net.IPNet{IP: net.IP{1, 2, 3, 4}, Mask: net.CIDRMask(64, 128)}
}

func (v *V) MAC() net.HardwareAddr {
	r := v.R
	n := 6
	if !v.CanonicalNet {
		switch r.Intn(8) {
		case 0:
			n = 8
		case 1:
			n = 20
		case 2:
			n = 0
		case 3:
			n = 4 // decodes as an IPv4 address in the binary format
		}
	}
	m := make(net.HardwareAddr, n)
	for i := range m {
		m[i] = byte(r.U64())
	}
	return m
}

var rawJSONs = []string{`null`, `true`, `0`, `-1.5e3`, `"s"`, `"q\"\\é😀"`, `{}`, `[]`, `{"a":1}`, `[1,"two",{"3":[null]}]`,
	`{"a": 1, "b" : [ 1 , 2 ]}`, `{"dup":1,"dup":2}`, `1234567890123456789012345678901234567890`, `" <&>"`, `[[[[[[]]]]]]`, `{"":""}`}

func (v *V) RawJSON() []byte {
	r := v.R
	if r.Chance(1, 4) {
		// generated
		x := v.ifaceValue(2)
		b, err := json.Marshal(x)
		if err == nil {
			return b
		}
	}
	return []byte(rawJSONs[r.Intn(len(rawJSONs))])
}

func (v *V) RawCBOR() []byte {
	r := v.R
	n := []int{0, 1, 2, 3, 5, 23, 24, 100, 255, 256}[r.Intn(10)]
	b := make([]byte, n)
	for i := range b {
		b[i] = byte(r.U64())
	}
	return b
}

// FailJSON is a value whose MarshalJSON always fails, with an arbitrary error text.
type FailJSON struct{ Msg string }

func (f FailJSON) MarshalJSON() ([]byte, error) { return nil, errors.New("nope \"x\"\n" + f.Msg) }

type sampleStruct struct {
	A int               `json:"a"`
	B string            `json:"b<>"`
	C []float64         `json:"c,omitempty"`
	D map[string]string `json:"d"`
	E *int
}

func (v *V) ifaceValue(depth int) interface{} {
	r := v.R
	switch r.Intn(12) {
	case 0:
		return nil
	case 1:
		return v.Int64()
	case 2:
		return v.String()
	case 3:
		return r.Bool()
	case 4:
		f := v.Float64()
		if math.IsNaN(f) || math.IsInf(f, 0) {
			f = 1.5
		}
		return f
	case 5:
		if depth > 0 {
			m := map[string]interface{}{}
			for i, n := 0, r.Intn(4); i < n; i++ {
				m[v.Key()] = v.ifaceValue(depth - 1)
			}
			return m
		}
		return map[string]int{"x": 1}
	case 6:
		if depth > 0 {
			var s []interface{}
			for i, n := 0, r.Intn(4); i < n; i++ {
				s = append(s, v.ifaceValue(depth-1))
			}
			return s
		}
		return []int{1, 2}
	case 7:
		x := int(v.Int64())
		return sampleStruct{A: x, B: v.String(), C: []float64{1.5}, D: map[string]string{"k<": "v>"}, E: &x}
	case 8:
		return &sampleStruct{}
	case 9:
		return []byte(v.String()) // base64 in encoding/json
	case 10:
		return json.RawMessage(rawJSONs[r.Intn(len(rawJSONs))])
	}
	return uint8(r.Intn(256))
}

func (v *V) Iface() interface{} {
	if v.R.Chance(1, 15) {
		return FailJSON{v.String()}
	}
	return v.ifaceValue(2)
}

func (v *V) Err() error {
	r := v.R
	switch r.Intn(8) {
	case 0:
		return nil
	case 1:
		return (*TypedNilErr)(nil)
	}
	return errors.New(v.String())
}

// Strn is a fmt.Stringer.
type Strn struct{ S string }

func (s Strn) String() string { return s.S }
