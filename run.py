#!/usr/bin/env python3
"""Orchestrator for the zerolog runtime-monitoring checks.

  run.py setup                      build every harness variant from /repo's current tree
  run.py <Cxx> quick|thorough       run one check (env VERIF_SEED, default 1)
  run.py replay <Cxx> <path>        re-execute the case stored in a replay file

Exit codes: 0 held on everything explored; 1 violation (prints VIOLATION lines);
2 harness/build error; 3 inconclusive (nothing observed).
"""
import json, os, subprocess, sys, time, glob, shutil, re, hashlib
from concurrent.futures import ThreadPoolExecutor

ROOT = os.path.dirname(os.path.abspath(__file__))
sys.path.insert(0, os.path.join(ROOT, "lib"))
import checks  # noqa: E402

BUILD = os.path.join(ROOT, "build")
LOGS = os.path.join(BUILD, "logs")
OUTD = os.path.join(BUILD, "out")
REPLAYS = os.path.join(ROOT, "replays")
HARNESS = os.path.join(ROOT, "harness")
NCPU = os.cpu_count() or 4

GOENV = dict(os.environ, GOFLAGS="-mod=mod", GOPROXY="off", GOSUMDB="off", GOTOOLCHAIN="local",
             CGO_ENABLED=os.environ.get("CGO_ENABLED", "1"))

VARIANTS = {
    "vh": ["-tags", "verif"],
    "vh-race": ["-tags", "verif", "-race"],
    "vh-bin": ["-tags", "verif,binary_log"],
    "vh-bin-race": ["-tags", "verif,binary_log", "-race"],
    "vh-asan": ["-tags", "verif", "-asan"],
}


def log(*a):
    print(*a, flush=True)


def build(variants):
    """(Re)build the requested variants from /repo's current working tree. The Go build cache makes
    an unchanged rebuild ~1 s; a changed /repo is always picked up because the harness module
    replaces github.com/rs/zerolog with /repo."""
    os.makedirs(BUILD, exist_ok=True)
    # keep go.sum in sync with /repo's
    try:
        want = open("/repo/go.sum").read()
        have = open(os.path.join(HARNESS, "go.sum")).read()
        missing = [l for l in want.splitlines() if l and l not in have]
        if missing:
            with open(os.path.join(HARNESS, "go.sum"), "a") as fh:
                fh.write("\n".join(missing) + "\n")
    except OSError:
        pass

    def one(v):
        out = os.path.join(BUILD, v)
        cmd = ["go", "build"] + VARIANTS[v] + ["-o", out, "./cmd/vh"]
        p = subprocess.run(cmd, cwd=HARNESS, env=GOENV, capture_output=True, text=True)
        return v, p.returncode, p.stdout + p.stderr

    with ThreadPoolExecutor(max_workers=4) as ex:
        res = list(ex.map(one, variants))
    ok = True
    for v, rc, outp in res:
        if rc != 0:
            ok = False
            log("BUILD-FAILED %s\n%s" % (v, outp))
    return ok


def run_child(variant, argv, tag, timeout, env_extra=None, race=False):
    """Run one child; stdout+stderr go to a log file; result JSON goes to an -out file."""
    os.makedirs(LOGS, exist_ok=True)
    os.makedirs(OUTD, exist_ok=True)
    outp = os.path.join(OUTD, tag + ".json")
    hashp = os.path.join(OUTD, tag + ".hashes")
    for p in (outp, hashp):
        if os.path.exists(p):
            os.remove(p)
    logp = os.path.join(LOGS, tag + ".log")
    env = dict(os.environ)
    if env_extra:
        env.update(env_extra)
    racelog = None
    if race:
        racelog = os.path.join(LOGS, "race." + tag)
        for old in glob.glob(racelog + ".*"):
            os.remove(old)
        env["GORACE"] = "halt_on_error=0 log_path=%s" % racelog
    cmd = ["timeout", "-s", "QUIT", str(timeout), os.path.join(BUILD, variant)] + argv + ["-out", outp, "-hashes", hashp]
    t0 = time.time()
    with open(logp, "w") as lf:
        rc = subprocess.call(cmd, stdout=lf, stderr=subprocess.STDOUT, env=env, cwd=ROOT)
    res = None
    if os.path.exists(outp):
        try:
            res = json.load(open(outp))
        except Exception as e:  # noqa
            res = None
    return dict(tag=tag, rc=rc, res=res, log=logp, hashes=hashp if os.path.exists(hashp) else None,
                racelog=racelog, wall=time.time() - t0)


def confirm_suspect(variant, cf, witness, tag):
    """Run one witness alone under a CPU-time limit. Returns (exhausted | finished | unknown, text, input hex)."""
    import resource
    cpu = int(cf.get("cpu", 200))
    whex = ""
    try:
        b = open(witness, "rb").read()
        n = int.from_bytes(b[:4], "little")
        whex = b[8:8 + n].hex()
    except (OSError, ValueError):
        return "unknown", "witness %s unreadable" % witness, ""
    logp = os.path.join(LOGS, tag + ".confirm.log")
    env = dict(os.environ, GOMAXPROCS="2")

    def lim():
        resource.setrlimit(resource.RLIMIT_CPU, (cpu, cpu + 10))
    with open(logp, "w") as lf:
        p = subprocess.Popen([os.path.join(BUILD, variant), cf["cmd"], witness], stdout=lf, stderr=subprocess.STDOUT, env=env, cwd=ROOT, preexec_fn=lim)
        try:
            rc = p.wait(timeout=cpu * 20 + 600)   # watchdog only: its firing decides nothing
        except subprocess.TimeoutExpired:
            p.kill()
            p.wait()
            return "unknown", "the confirmation run got less than %d CPU-seconds in %d s of wall clock" % (cpu, cpu * 20 + 600), whex
    ru = resource.getrusage(resource.RUSAGE_CHILDREN)
    tail = open(logp, errors="replace").read()[-4000:]
    if "SIGXCPU" in tail or rc in (-24, -9, 128 + 24, 128 + 9):
        return "exhausted", ("a %d-byte input, decoded alone, used up %d CPU-seconds without finishing (inputs of this size take "
                             "well under a millisecond)" % (len(whex) // 2, cpu)), whex
    return "finished", "the witness, decoded alone, finished (rc=%s) within %d CPU-seconds; log %s" % (rc, cpu, logp), whex


def classify_crash(tail, rc):
    """Who killed a child that left no result? Returns (who, reason) with who in zerolog | harness | timeout | unknown.
    The crashing goroutine is the first one printed after the panic / fatal error line; its innermost frame outside
    the Go runtime and the standard library decides."""
    if rc == 124 or "SIGQUIT: quit" in tail:
        return "timeout", "stage timeout (SIGQUIT)"
    m = re.search(r"(fatal error: [^\n]*|panic: [^\n]*|ERROR: AddressSanitizer[^\n]*|unexpected signal[^\n]*|signal: [^\n]*)", tail)
    if not m:
        return "unknown", "child exited with status %s without a result" % rc
    reason = m.group(1)
    rest = tail[m.end():]
    g = re.search(r"goroutine \d+ [^\n]*\[running[^\n]*\]:\n(.*?)(?:\n\n|\Z)", rest, re.S)
    block = g.group(1) if g else rest[:4000]
    for fl in re.findall(r"^\s+(/\S+?\.go):\d+", block, re.M):
        if fl.startswith("/repo/"):
            return "zerolog", reason
        if fl.startswith("/verif/"):
            return "harness", reason
    return "unknown", reason


def parse_race_logs(prefix):
    """Count and de-duplicate WARNING: DATA RACE blocks. Returns list of dicts(sig, zerolog, text)."""
    blocks = []
    for p in glob.glob(prefix + ".*"):
        txt = open(p, errors="replace").read()
        for blk in txt.split("WARNING: DATA RACE")[1:]:
            blk = blk.split("==================")[0]
            frames = re.findall(r"^\s+([\w./()*\-\[\]·]+)\(.*?\)\n\s+(\S+?):(\d+)", blk, re.M)
            # per-access stacks: split on blank lines
            stacks = [s for s in blk.split("\n\n") if s.strip()]
            outer = []
            inz = False
            # A race belongs to zerolog when one of the two racing ACCESSES is made by zerolog code: the
            # innermost non-runtime frame of either access stack lies under /repo. Races on the harness's own
            # memory (both accesses in /verif code, even when reached through a zerolog hook call) are harness bugs.
            for s in stacks[:2]:
                fr = re.findall(r"^\s+(\S+)\(.*\)\n\s+(\S+?):\d+", s, re.M)
                fr = [(fn, fl) for fn, fl in fr if not fl.startswith("/usr/") and "/go/src/" not in fl and "runtime/" not in fl]
                if fr:
                    outer.append(fr[-1][0])
                    if fr[0][1].startswith("/repo/"):
                        inz = True
            blocks.append(dict(sig="|".join(sorted(outer)), zerolog=inz, text=blk[:3000]))
    return blocks


def merge(results):
    agg = dict(evaluations=0, samples=[], counters={}, matrix={}, violations=[], n_violations=0,
               inconclusive=[], extra={}, exhaustive=None)
    for r in results:
        d = r["res"]
        if d is None:
            continue
        agg["evaluations"] += d.get("evaluations", 0)
        for s in d.get("samples", []):
            if len(agg["samples"]) < 8:
                agg["samples"].append(s)
        for k, v in d.get("counters", {}).items():
            agg["counters"][k] = agg["counters"].get(k, 0) + v
        for fe, m in (d.get("matrix") or {}).items():
            mm = agg["matrix"].setdefault(fe, {})
            for k, v in m.items():
                mm[k] = mm.get(k, 0) + v
        agg["violations"] += d.get("violations", [])
        agg["n_violations"] += d.get("n_violations", 0)
        agg["inconclusive"] += d.get("inconclusive", [])
        for k, v in (d.get("extra") or {}).items():
            if isinstance(v, dict) and isinstance(agg["extra"].get(k), dict):
                for kk, vv in v.items():
                    if isinstance(vv, (int, float)) and isinstance(agg["extra"][k].get(kk), (int, float)):
                        agg["extra"][k][kk] += vv
                    else:
                        agg["extra"][k].setdefault(kk, vv)
            elif isinstance(v, (int, float)) and not isinstance(v, bool) and isinstance(agg["extra"].get(k), (int, float)) and k.startswith("sum_"):
                agg["extra"][k] += v
            else:
                agg["extra"].setdefault(k, v)
        if "exhaustive" in d:
            agg["exhaustive"] = d["exhaustive"] if agg["exhaustive"] is None else (agg["exhaustive"] and d["exhaustive"])
    hashes = [r["hashes"] for r in results if r.get("hashes")]
    distinct = 0
    if hashes:
        p = subprocess.run([os.path.join(BUILD, "vh"), "merge-hashes"] + hashes, capture_output=True, text=True)
        if p.returncode == 0:
            distinct = int(p.stdout.strip() or 0)
    if distinct == 0 and isinstance(agg["extra"].get("sum_distinct_cases"), (int, float)):
        distinct = int(agg["extra"]["sum_distinct_cases"])
    agg["distinct_nontrivial"] = distinct
    return agg


def load_known():
    p = os.path.join(ROOT, "known_findings.json")
    if not os.path.exists(p):
        return []
    return json.load(open(p)).get("known", [])


def write_evidence(pid, tier, seed, level, agg, rule, assumptions, wall, nviol, extra_cov=None):
    cov = dict(evaluations=int(agg["evaluations"]), distinct_nontrivial=int(agg["distinct_nontrivial"]), rule=rule,
               samples=agg["samples"] if agg["samples"] else ["(no sample recorded)"])
    if agg.get("exhaustive"):
        cov["exhaustive"] = True
    cov["counters"] = agg["counters"]
    if agg["matrix"]:
        cov["hit_matrix"] = agg["matrix"]
    cov["inconclusive"] = len(agg["inconclusive"])
    for k, v in agg["extra"].items():
        cov.setdefault(k, v)
    if extra_cov:
        cov.update(extra_cov)
    ev = dict(property_id=pid, tier=tier, seed=seed, level=level, coverage=cov, assumptions=assumptions,
              wall_s=round(wall, 2), violations=int(nviol))
    os.makedirs(os.path.join(ROOT, "evidence"), exist_ok=True)
    path = os.path.join(ROOT, "evidence", pid + ".json")
    tmp = path + ".tmp"
    with open(tmp, "w") as fh:
        json.dump(ev, fh, indent=1, default=str)
    os.replace(tmp, path)
    return path


def run_check(pid, tier, seed):
    spec = checks.CHECKS[pid]
    t0 = time.time()
    variants = sorted({st["variant"] for st in spec["stages"](tier) if st["variant"] in VARIANTS} | {"vh"})
    if not build(variants):
        log("ERROR property=%s build failed" % pid)
        return 2
    if "prepare" in spec:
        if not spec["prepare"](tier, seed, dict(BUILD=BUILD, HARNESS=HARNESS, GOENV=GOENV, ROOT=ROOT, log=log)):
            log("ERROR property=%s prepare step failed" % pid)
            return 2
    jobs = []
    for si, st in enumerate(spec["stages"](tier)):
        n = st.get("shards", 1)
        for sh in range(n):
            argv = [st["cmd"], "-seed", str(seed), "-tier", tier, "-shard", str(sh), "-nshards", str(n)] + st.get("args", [])
            tag = "%s.%s.s%d.%d" % (pid, st["cmd"], si, sh)
            jobs.append((st, argv, tag))
    results = [None] * len(jobs)
    par = min(NCPU, max(1, spec.get("parallel", NCPU)))
    # stages may carry a "phase": phases run one after the other (e.g. emit, then compare)
    for phase in sorted({st.get("phase", 0) for st, _, _ in jobs}):
        with ThreadPoolExecutor(max_workers=par) as ex:
            futs = {i: ex.submit(run_child, st["variant"], argv, tag, st.get("timeout", 3600), st.get("env"), st.get("race", False))
                    for i, (st, argv, tag) in enumerate(jobs) if st.get("phase", 0) == phase}
            for i, fu in futs.items():
                results[i] = fu.result()
    harness_err = False
    for r, (st, _argv, _tag) in zip(results, jobs):
        if r["res"] is not None:
            continue
        # the child died without a result: who did it?
        tail = ""
        try:
            tail = open(r["log"], errors="replace").read()[-20000:]
        except OSError:
            pass
        who, reason = classify_crash(tail, r["rc"])
        civ = st.get("crash_is_violation")
        if (civ and who not in ("harness", "timeout")) or (not civ and who == "zerolog"):
            # a fatal error / panic in zerolog code (or, for stages that feed hostile input, any death that is not
            # the harness's own): the input the child was working on is on disk
            wit = st.get("crash_witness", "").format(shard=_argv[_argv.index("-shard") + 1])
            whex = ""
            try:
                b = open(wit, "rb").read()
                n = int.from_bytes(b[:4], "little")
                whex = b[8:8 + n].hex()
            except (OSError, ValueError):
                pass
            r["res"] = dict(evaluations=0, samples=[], counters={}, violations=[dict(sig="crash:" + reason[:60],
                            desc="%s (%s); witness input %s" % (st.get("crash_desc", "the child process running the workload died in zerolog code"), reason, whex[:200] or "n/a"),
                            replay=dict(check=pid, input_full_hex=whex, log_tail=tail[-2500:]))], n_violations=1, inconclusive=[])
            continue
        harness_err = True
        log("ERROR property=%s child %s produced no result (rc=%s, %s: %s); see %s" % (pid, r["tag"], r["rc"], who, reason, r["log"]))
        log(tail[-3000:])
    # suspects: a child stopped because one input ran for very long (wall clock, not a verdict). Decide on CPU time:
    # the witness is run alone under RLIMIT_CPU; exhausting a budget that is >= 10^5 times what any input of that
    # size needs is reported as non-termination, finishing within it leaves the suspect inconclusive.
    n_confirm = 0
    for r, (st, _argv, _tag) in zip(results, jobs):
        wit = ((r["res"] or {}).get("extra") or {}).get("suspect_witness")
        cf = st.get("confirm")
        if not wit or not cf:
            continue
        n_confirm += 1
        if n_confirm > 2:   # every shard tends to meet the same defect: two confirmations are enough
            continue
        verdict, info, whex = confirm_suspect(st["variant"], cf, wit, r["tag"])
        if verdict == "exhausted":
            r["res"].setdefault("violations", []).append(dict(
                sig="non-termination", desc="%s; witness input %s" % (info, whex[:200]),
                replay=dict(check=pid, input_full_hex=whex, witness=wit)))
            r["res"]["n_violations"] = r["res"].get("n_violations", 0) + 1
            r["res"]["inconclusive"] = [s for s in r["res"].get("inconclusive", []) if not s.startswith("suspect-timeout")]
        else:
            r["res"].setdefault("inconclusive", []).append("suspect not confirmed: " + info)
    agg = merge(results)
    # race reports
    races = []
    for r in results:
        if r.get("racelog"):
            races += parse_race_logs(r["racelog"])
    race_sigs = {}
    for b in races:
        race_sigs.setdefault((b["sig"], b["zerolog"]), []).append(b)
    if any(r.get("racelog") for r in results):
        agg["extra"]["race_reports_total"] = len(races)
        agg["extra"]["race_reports_distinct"] = len(race_sigs)
    for (sig, inz), bl in race_sigs.items():
        if inz:
            agg["violations"].append(dict(sig="race:" + sig, desc="data race with a zerolog frame (%d reports): %s" % (len(bl), sig),
                                          replay=dict(check=pid, race_report=bl[0]["text"])))
            agg["n_violations"] += len(bl)
        else:
            harness_err = True
            log("ERROR property=%s data race without any zerolog frame (harness bug): %s\n%s" % (pid, sig, bl[0]["text"][:1500]))
    # classify violations
    known = [k for k in load_known() if k.get("property") == pid]
    os.makedirs(REPLAYS, exist_ok=True)
    new_viol = 0
    printed_known = set()
    by_sig = {}
    for v in agg["violations"]:
        k = next((k for k in known if k["sig"] == v["sig"]), None)
        if k is not None:
            if k["sig"] not in printed_known:
                printed_known.add(k["sig"])
                log("KNOWN-FINDING: property=%s %s" % (pid, k["what"]))
            continue
        new_viol += 1
        by_sig.setdefault(v["sig"], []).append(v)
    sig_counts = (agg["extra"].get("violations_by_sig") or {})
    for sig, vs in list(by_sig.items())[:25]:
        v = vs[0]
        h = hashlib.sha1(json.dumps(v, sort_keys=True, default=str).encode()).hexdigest()[:8]
        rp = os.path.join(REPLAYS, "%s-%s-%s-%s.json" % (pid, tier, seed, h))
        with open(rp, "w") as fh:
            json.dump(dict(property=pid, tier=tier, seed=seed, sig=v["sig"], desc=v["desc"], replay=v.get("replay"),
                           more_with_same_signature=[x.get("replay") for x in vs[1:4]]), fh, indent=1, default=str)
        log("VIOLATION property=%s replay=%s" % (pid, rp))
        log("  signature=%r occurrences=%s" % (sig, sig_counts.get(sig, len(vs))))
        log("  " + v["desc"][:700])
    for s in agg["inconclusive"][:10]:
        log("INCONCLUSIVE property=%s %s" % (pid, s))
    wall = time.time() - t0
    rule = spec["rule"]
    ev = write_evidence(pid, tier, seed, spec["level"], agg, rule, spec["assumptions"], wall, new_viol,
                        dict(known_findings_seen=sorted(printed_known)))
    log("%s %s seed=%s: evaluations=%d distinct_nontrivial=%d violations=%d known=%d inconclusive=%d wall=%.1fs evidence=%s" % (
        pid, tier, seed, agg["evaluations"], agg["distinct_nontrivial"], new_viol, len(printed_known), len(agg["inconclusive"]), wall, ev))
    if new_viol:
        return 1
    if harness_err:
        return 2
    if agg["evaluations"] == 0:
        log("INCONCLUSIVE property=%s nothing was observed" % pid)
        return 3
    req = spec.get("require", {})
    for name, minimum in req.items():
        if agg["counters"].get(name, 0) < minimum:
            log("INCONCLUSIVE property=%s counter %s=%s below the minimum %s this check needs to mean anything" % (pid, name, agg["counters"].get(name, 0), minimum))
            return 3
    return 0


def main():
    if len(sys.argv) < 2:
        print(__doc__)
        return 2
    if sys.argv[1] == "setup":
        ok = build([v for v in VARIANTS if v != "vh-asan"])
        return 0 if ok else 2
    if sys.argv[1] == "replay":
        pid, path = sys.argv[2], sys.argv[3]
        d = json.load(open(path))
        rp = d.get("replay") or {}
        if not build(["vh", "vh-bin", "vh-race", "vh-bin-race"]):
            return 2
        spec = checks.CHECKS[pid]
        st = spec["replay"](rp) if "replay" in spec else None
        if st is None:
            log("replay: this case is schedule dependent or has no single-case replay; re-running the quick tier with its seed")
            return run_check(pid, d.get("tier", "quick"), int(d.get("seed", 1)))
        r = run_child(st["variant"], st["argv"], "replay." + pid, 600, st.get("env"), st.get("race", False))
        res = r["res"] or {}
        log(json.dumps(res.get("violations", []), indent=1)[:6000])
        log("replay: %d violation(s) reproduced" % res.get("n_violations", 0))
        return 1 if res.get("n_violations", 0) else 0
    pid = sys.argv[1].upper()
    tier = sys.argv[2] if len(sys.argv) > 2 else os.environ.get("VERIF_TIER", "quick")
    seed = int(os.environ.get("VERIF_SEED", "1") or 1)
    if pid not in checks.CHECKS:
        log("unknown check " + pid)
        return 2
    return run_check(pid, tier, seed)


if __name__ == "__main__":
    sys.exit(main())
