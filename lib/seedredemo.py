#!/usr/bin/env python3
"""Re-validate kept seeded changes against the CURRENT /repo HEAD (fix commits may have landed since they were
confirmed): in a scratch worktree the demo must still pass without the patch and fail with it.

  seedredemo.py [ids...]        (default: all of /verif/seeded/*)

Writes demo_at_head = valid | stale-passes-with-patch | stale-fails-without-patch | no-apply into meta.json."""
import glob, json, os, re, shutil, subprocess, sys
from concurrent.futures import ThreadPoolExecutor

ENV = dict(os.environ, GOFLAGS="-mod=mod", GOPROXY="off", GOSUMDB="off", GOTOOLCHAIN="local")


def sh(cmd, cwd=None, timeout=1200):
    p = subprocess.run(cmd, shell=isinstance(cmd, str), cwd=cwd, env=ENV, capture_output=True, text=True, errors="replace", timeout=timeout)
    return p.returncode, p.stdout + p.stderr


def one(d):
    m = json.load(open(os.path.join(d, "meta.json")))
    name = m["id"]
    fresh = "/tmp/rd-" + name
    sh(["git", "-C", "/repo", "worktree", "remove", "--force", fresh])
    rc, out = sh(["git", "-C", "/repo", "worktree", "add", "--detach", fresh, "HEAD"])
    if rc != 0:
        return name, "worktree-error"
    try:
        cmds = []
        # two demo files with one base name were stored as one (the last): use that one only
        demos = list({os.path.basename(dm): dm for dm in m["demos"]}.values())
        for dm in demos:
            src_p = os.path.join(d, os.path.basename(dm))
            dst = os.path.join(fresh, dm)
            os.makedirs(os.path.dirname(dst) or fresh, exist_ok=True)
            shutil.copy(src_p, dst)
            src = open(src_p, errors="replace").read()
            tags = []
            mm = re.search(r"//go:build\s+(.*)", src)
            if mm:
                for t in ("binary_log", "verif"):
                    if re.search(r"(?<![!\w])" + t, mm.group(1)):
                        tags.append(t)
            pkg = "./" + (os.path.dirname(dm) or ".")
            variants = [tags]
            if not mm and pkg in ("./.", "./internal/cbor"):
                variants = [[], ["binary_log"]]
            for tg in variants:
                c = "timeout 900 go test -count=1 -run Seeded %s %s" % (("-tags " + ",".join(tg)) if tg else "", pkg)
                if c not in cmds:
                    cmds.append(c)
        usable = [c for c in cmds if sh(c, cwd=fresh)[0] == 0]
        if not usable:
            return name, "stale-fails-without-patch"
        rc, out = sh(["git", "-C", fresh, "apply", "--whitespace=nowarn", os.path.join(d, "patch.diff")])
        if rc != 0:
            return name, "no-apply"
        fails = [c for c in usable if sh(c, cwd=fresh)[0] != 0]
        if not fails:
            # flaky demos (probabilistic): two more tries
            for _ in range(2):
                if any(sh(c, cwd=fresh)[0] != 0 for c in usable):
                    return name, "valid"
            return name, "stale-passes-with-patch"
        return name, "valid"
    finally:
        sh(["git", "-C", "/repo", "worktree", "remove", "--force", fresh])
        shutil.rmtree(fresh, ignore_errors=True)


def main():
    only = sys.argv[1:]
    dirs = [d for d in sorted(glob.glob("/verif/seeded/*")) if os.path.exists(os.path.join(d, "meta.json"))]
    if only:
        dirs = [d for d in dirs if os.path.basename(d) in only]
    with ThreadPoolExecutor(max_workers=6) as ex:
        for d, (name, verdict) in zip(dirs, ex.map(one, dirs)):
            mp = os.path.join(d, "meta.json")
            m = json.load(open(mp))
            m["demo_at_head"] = dict(verdict=verdict, head=sh(["git", "-C", "/repo", "rev-parse", "--short", "HEAD"])[1].strip())
            json.dump(m, open(mp, "w"), indent=1)
            print(name, verdict, flush=True)
    sh(["git", "-C", "/repo", "worktree", "prune"])


if __name__ == "__main__":
    sys.exit(main())
