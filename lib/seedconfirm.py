#!/usr/bin/env python3
"""Confirm a sub-agent's seeded change independently, in a fresh scratch worktree of /repo:

  seedconfirm.py <Cxx> <agent_worktree> [--name <id>] [--checks C01,C02] [--tier quick]

 1. fresh worktree at /repo HEAD under /tmp; the agent's demo test files are copied in
 2. demo WITHOUT the patch must pass
 3. patch applies; builds (default, binary_log, verif); the existing suite keeps the baseline pass set
 4. demo WITH the patch must fail
 5. the patch is run against the registered checks with lib/seedtest.py (applied to /repo, undone afterwards)
 6. everything is stored under /verif/seeded/<id>/ (patch.diff, demo, NOTES.md, meta.json)
The scratch worktree and its build output are removed at the end."""
import json, os, re, shutil, subprocess, sys, time

ENV = dict(os.environ, GOFLAGS="-mod=mod", GOPROXY="off", GOSUMDB="off", GOTOOLCHAIN="local")


def sh(cmd, cwd=None, timeout=1800):
    p = subprocess.run(cmd, shell=isinstance(cmd, str), cwd=cwd, env=ENV, capture_output=True, text=True, errors="replace", timeout=timeout)
    return p.returncode, p.stdout + p.stderr


def main():
    args = [a for a in sys.argv[1:]]
    prop, wt = args[0], args[1]
    name = prop.lower() + "-agent1"
    checks = prop
    tier = "quick"
    for i, a in enumerate(args):
        if a == "--name":
            name = args[i + 1]
        if a == "--checks":
            checks = args[i + 1]
        if a == "--tier":
            tier = args[i + 1]
    sd = os.path.join(wt, "_seeded")
    patch = os.path.join(sd, "patch.diff")
    if not os.path.exists(patch):
        print("no patch.diff in", sd)
        return 2
    # demo files: untracked *_test.go in the agent's worktree (outside _seeded)
    rc, out = sh(["git", "-C", wt, "status", "--porcelain"])
    demos = [l[3:].strip() for l in out.splitlines() if l.startswith("??") and l.strip().endswith("_test.go") and not l[3:].strip().startswith("_seeded/")]
    if not demos:
        print("no demo test file found in", wt)
        return 2
    fresh = "/tmp/cf-" + name
    sh(["git", "-C", "/repo", "worktree", "remove", "--force", fresh])
    rc, out = sh(["git", "-C", "/repo", "worktree", "add", "--detach", fresh, "HEAD"])
    if rc != 0:
        print(out)
        return 2
    meta = dict(id=name, property=prop, demos=demos, confirmed_at=time.strftime("%Y-%m-%d %H:%M:%S"), ran=[])
    ok = True
    try:
        for d in demos:
            os.makedirs(os.path.dirname(os.path.join(fresh, d)) or fresh, exist_ok=True)
            shutil.copy(os.path.join(wt, d), os.path.join(fresh, d))

        def demo_cmds():
            cmds = []
            for d in demos:
                src = open(os.path.join(fresh, d)).read()
                tags = []
                m = re.search(r"//go:build\s+(.*)", src)
                if m:
                    for t in ("binary_log", "verif"):
                        if re.search(r"(?<![!\w])" + t, m.group(1)):
                            tags.append(t)
                pkg = "./" + (os.path.dirname(d) or ".")
                variants = [tags]
                if not m and pkg in ("./.", "./internal/cbor"):
                    variants = [[], ["binary_log"]]  # untagged demo: the defect may only show in one encoding
                for tg in variants:
                    cmd = "go test -count=1 -run Seeded %s %s" % (("-tags " + ",".join(tg)) if tg else "", pkg)
                    if cmd not in cmds:
                        cmds.append(cmd)
            return cmds

        def run_demos(label):
            res = []
            for c in demo_cmds():
                rc, out = sh("timeout 900 " + c, cwd=fresh)
                res.append((c, rc))
                meta["ran"].append(dict(cmd=c, when=label, rc=rc, tail=out[-600:]))
                print("   [%s] %s -> rc=%d" % (label, c, rc))
            return res

        r0 = run_demos("without patch")
        # an untagged demo is also tried under -tags binary_log; a variant that fails already WITHOUT the patch says
        # nothing about the patch (e.g. a demo about the JSON build) and is left out, as long as another variant passes
        usable = [c for c, rc in r0 if rc == 0]
        if not usable:
            print("DEMO FAILS WITHOUT THE PATCH")
            ok = False
        elif len(usable) < len(r0):
            meta["demo_variants_ignored"] = [c for c, rc in r0 if rc != 0]
        rc, out = sh(["git", "-C", fresh, "apply", "--whitespace=nowarn", patch])
        if rc != 0:
            print("PATCH DOES NOT APPLY:", out[:400])
            return 2
        rc, out = sh("go build ./... && go build -tags binary_log ./... && go build -tags verif ./...", cwd=fresh)
        meta["builds_ok"] = rc == 0
        if rc != 0:
            print("DOES NOT BUILD", out[:600])
            ok = False
        # existing suite with the patch, demo excluded
        rc, out = sh("go test -json -vet=off -count=1 -skip Seeded ./... 2>&1", cwd=fresh, timeout=1500)
        passed = set()
        failed = set()
        for line in out.splitlines():
            try:
                d = json.loads(line)
            except Exception:
                continue
            if d.get("Test") and d.get("Action") in ("pass", "fail"):
                (passed if d["Action"] == "pass" else failed).add("%s::%s" % (d["Package"], d["Test"]))
        base = set(json.load(open("/root/.vp/BASELINE.json"))["stable_pass"])
        missing = sorted(base - passed)
        meta["existing_suite_missing"] = missing
        print("   existing suite with patch: %d/%d baseline tests pass, missing %s" % (len(base & passed), len(base), missing[:5]))
        if missing:
            ok = False
        r1 = [(c, rc) for c, rc in run_demos("with patch") if c in usable]
        if all(rc == 0 for _, rc in r1):
            print("DEMO PASSES WITH THE PATCH")
            ok = False
    finally:
        sh(["git", "-C", "/repo", "worktree", "remove", "--force", fresh])
        shutil.rmtree(fresh, ignore_errors=True)
    meta["confirmed"] = ok
    # my checks
    rc, out = sh(["python3", "/verif/lib/seedtest.py", patch, checks, tier], timeout=7200)
    print(out[-2500:])
    m = re.search(r"^RESULT (.*)$", out, re.M)
    meta["checks"] = json.loads(m.group(1)) if m else {}
    dst = os.path.join("/verif/seeded", name)
    os.makedirs(dst, exist_ok=True)
    shutil.copy(patch, os.path.join(dst, "patch.diff"))
    for d in demos:
        shutil.copy(os.path.join(wt, d), os.path.join(dst, os.path.basename(d)))
    if os.path.exists(os.path.join(sd, "NOTES.md")):
        shutil.copy(os.path.join(sd, "NOTES.md"), os.path.join(dst, "NOTES.md"))
    json.dump(meta, open(os.path.join(dst, "meta.json"), "w"), indent=1)
    print("CONFIRMED=%s stored in %s" % (ok, dst))
    return 0


if __name__ == "__main__":
    sys.exit(main())
