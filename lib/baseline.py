#!/usr/bin/env python3
"""Run the repository's pinned test suite with the verif guard OFF and compare with
/root/.vp/BASELINE.json's stable_pass list. Exit 0 iff every stable test passes."""
import json, os, subprocess, sys
env = dict(os.environ, GOFLAGS="-mod=mod", GOPROXY="off", GOSUMDB="off", GOTOOLCHAIN="local")
base = json.load(open("/root/.vp/BASELINE.json"))
want = set(base["stable_pass"])
passed, failed = set(), set()
mods = ["."]
if os.path.exists("/repo/cmd/lint/go.mod"):
    mods.append("cmd/lint")
for m in mods:
    p = subprocess.run(["go", "test", "-json", "-vet=off", "-count=1", "-timeout", "25m", "./..."],
                       cwd=os.path.join("/repo", m), env=env, capture_output=True, text=True)
    for line in p.stdout.splitlines():
        try:
            d = json.loads(line)
        except Exception:
            continue
        if d.get("Test") and d.get("Action") in ("pass", "fail"):
            name = "%s::%s" % (d["Package"], d["Test"])
            (passed if d["Action"] == "pass" else failed).add(name)
missing = sorted(want - passed)
print("baseline: %d/%d stable tests pass; failed (any): %s" % (len(want & passed), len(want), sorted(failed)))
if missing:
    print("MISSING:", missing)
    sys.exit(1)
