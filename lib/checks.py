"""Per-property check specifications used by run.py."""

CHECKS = {}


def replay_index(cmd, variant="vh"):
    def f(rp):
        if "index" not in rp:
            return None
        return dict(variant=variant, env={"TZ": "UTC"},
                    argv=[cmd, "-seed", str(rp.get("seed", 1)), "-tier", rp.get("tier", "quick"), "-replay", str(rp["index"])])
    return f


CHECKS["C01"] = dict(
    level="exploration",
    level_text=("runtime monitor: every byte sequence handed to the writer by ~60k (quick) / ~3M (thorough) seeded programs is judged by an "
                "independent strict RFC 8259 validator; exhaustive over all strings of <=2 (quick) / <=3 (thorough) class-alphabet pieces "
                "in every string-carrying position. Held on the executions produced, not a proof."),
    technique="runtime monitoring: independent JSON validator as oracle on writer bytes over a seeded structure-aware workload",
    stages=lambda tier: [dict(variant="vh", cmd="c01", shards=16, timeout=3000)],
    rule=("cases = all class-alphabet strings up to length L (L=2 quick, 3 thorough; 31 pieces covering every escape/UTF-8/"
          "structural class) each driven through every string-carrying call and front-end, plus seeded random programs "
          "(random global settings x logger derivation chain x events x nested field calls). A case is non-trivial if it "
          "wrote at least one event and has a container (Dict/Array/Object/EmbedObject/Fields) or a byte outside plain "
          "ASCII; distinct = distinct hash of (settings, bytes of every event written)."),
    assumptions=["the harness's own RFC 8259 validator (harness/jsonv) is the judge of well-formedness",
                 "RawJSON arguments and custom marshal outputs generated are valid JSON; time layouts contain no quote/backslash/control",
                 "a panic escaping a logging call is reported as a violation of C01 (no event reached the writer)"],
    replay=replay_index("c01"),
    require=dict(events_written=1000),
)

CHECKS["C02"] = dict(
    level="exploration",
    level_text=("runtime monitor with a reference encoder as oracle: every emitted event is re-read with the harness's own tokenizer and each "
                "field compared with the value that was logged (text after U+FFFD mapping, integers via big.Int text, floats bit-exact and "
                "equal to encoding/json's text, times/durations per the globals, documented text forms); the same (kind,value) is logged through "
                "every entry point and the raw value bytes must be identical. Thorough tier is exhaustive over all 2^32 float32 patterns."),
    technique="runtime monitoring: reference-encoder oracle + metamorphic entry-point comparison over seeded/exhaustive value spaces",
    stages=lambda tier: [dict(variant="vh", cmd="c02", shards=16, timeout=3000),
                         dict(variant="vh", cmd="c02-floats", shards=16, timeout=3000),
                         dict(variant="vh", cmd="c02-runes", shards=8, timeout=3000),
                         dict(variant="vh", cmd="c02-lengths", shards=4, timeout=3000)],
    rule=("cases = (a) class-alphabet strings up to length L through every string-carrying call/front-end, (b) one metamorphic program per "
          "(scalar kind, generated value, random time/duration/precision/error-marshal settings) logging the value through Event, Context, "
          "Dict, Object, Func, Array, Fields(map/slice/pointer) and the slice variant, (c) float32 bit patterns (stride 1021 quick, all 2^32 "
          "thorough) and random/boundary float64 patterns. distinct_nontrivial counts distinct (settings, event bytes) hashes of (a)+(b) only; "
          "float patterns are counted in counters.float32_patterns / float64_patterns (each pattern is distinct by construction)."),
    assumptions=["reference renderings come from strconv / encoding/json / time / net of the Go toolchain, not from zerolog",
                 "ErrorMarshalFunc variants used are idempotent (Event.Errs applies the function twice; not regulated by the statement)",
                 "pre-1970 instants under UNIXMS/UNIXMICRO may be truncated or floored (the statement does not say which)"],
    replay=replay_index("c02"),
    require=dict(float32_patterns=100000, occurrences_compared=10000),
)

CHECKS["C03"] = dict(
    level="exploration",
    level_text=("runtime monitor: for seeded random derivation chains (With/Reset/Timestamp/Stack/Ctx/UpdateContext/Hook/Level/Output/Sample) "
                "every emitted object's ordered member list and values are compared with a model computed from the program alone, and each "
                "recording hook's invocation log with the specified (id, level, message) sequence."),
    technique="runtime monitoring: layout/hook-order reference model checked against every emitted event and recorded hook log",
    stages=lambda tier: [dict(variant="vh", cmd="c03", shards=16, timeout=3000)],
    rule=("cases = seeded random programs with unique keys: chain of <=6 (quick) / <=12 (thorough) derivation steps, hook lists mixing "
          "add/discard/GetCtx/noop/LevelHook/HookFunc/Timestamp hooks, 1-4 events with <=6 nested field calls, all finalizers. non-trivial = "
          "wrote an event, chain length >= 2 and at least one hook attached; distinct by hash of (settings, event bytes)."),
    assumptions=["after a discarding hook the level handed to later hooks is not regulated (only that they run once and the event is not written)",
                 "hooks only add plain scalar fields (no Err, whose rendering depends on the running event's stack flag)"],
    replay=replay_index("c03"),
    require=dict(events_written=1000, hooks_attached=500, discard_hooks=20),
)

CHECKS["C04"] = dict(
    level="exploration",
    level_text=("exhaustive runtime enumeration: all 256 logger levels x 256 global levels x 256 event levels (a superset of the 136 the statement "
                "names) against a recording LevelWriter, with admit-all / reject-all counting samplers; all 256 Level text round trips; every "
                "exported *Event method (enumerated by reflection) called with recording arguments on six kinds of filtered event; Panic/Fatal "
                "behaviour observed in-process and in a re-executed child. exhaustive=true for the level space."),
    technique="runtime monitoring: exhaustive level-triple enumeration + reflection-driven inertness probes + child-process exit observation",
    stages=lambda tier: [dict(variant="vh", cmd="c04", shards=16, timeout=1200, crash_is_violation=True,
                              crash_desc="the process terminated while only WithLevel()/level-method/inertness probes were running (none of which may exit or panic)")],
    rule=("every (logger level, global level, event level) triple in [-128,127]^3 is one case (16 777 216, all distinct by construction), plus the "
          "named level methods and Print family on the 256x256 grid, 1029 text round trips, one call per (exported Event method x filtered-event "
          "source) and 11 Panic/Fatal scenarios; non-trivial = all of them (each is a different input); distinct_nontrivial counts hashes only "
          "for nothing here, so the number reported is sum_distinct_cases computed from the loop counters."),
    assumptions=["an argument type of a future Event method that the synthesizer cannot build makes the check exit 2 (harness incomplete), never pass silently"],
    require=dict(level_triples=16777216, inert_method_calls=300),
)

CHECKS["C13"] = dict(
    level="exploration",
    level_text=("online reference-model monitor: every Sample return value is compared with an executable model of the documented share driven by "
                "the same scripted TimestampFunc clock (bounded-exhaustive over all clock histories of length <=6/8 on a 7-value alphabet and of length "
                "<=5/7 on an 8-value alphabet of readings before, at and around the Unix epoch, x Burst x Period x 5 NextSampler compositions; random "
                "non-monotonic histories beyond, a quarter of them before the epoch), LevelSampler over all 256 levels x 32 configurations; random "
                "sampler compositions (Basic / Burst / Level / recording leaves, depth <= 3) behind a Logger driven through every entry point "
                "(Trace..Error, Log, Print, Write, Err, WithLevel): the writer sees exactly the admitted events, the recording leaves must have been "
                "consulted exactly as in the model and with the EVENT's level, gated events and loggers whose sampler was removed consult nothing, "
                "children derived from the sampled logger share its budget, DisableSampling admits everything; BasicSampler under real goroutines: "
                "exact ceil(k/N) accounting, porcupine linearizability of short histories against the counter model, and the race detector."),
    technique="runtime monitoring: reference sampler models compared call by call (return values and consultation logs); porcupine + race detector for concurrent BasicSampler",
    stages=lambda tier: [dict(variant="vh", cmd="c13", shards=16, timeout=3000),
                         dict(variant="vh", cmd="c13-conc", shards=4, timeout=3000),
                         dict(variant="vh-race", cmd="c13-conc", shards=4, timeout=3000, race=True)],
    rule=("one case = one (sampler parameters, clock history) pair, one composition behind a logger, or one concurrent run; non-trivial = Burst>0 and "
          "Period>0 for Burst histories, all others; distinct by case index / content hash"),
    assumptions=["clock reading + Period stays below MaxInt64 nanoseconds (the clock's own range); uint32 counter wrap-around is not driven",
                 "DisableSampling(true) is only switched on for the tail of a history: whether a disabled sampler is still consulted is not regulated"],
    require=dict(sample_calls=100000, porcupine_ok=100, logger_sampling_events_with_level_observed=1000),
)

CHECKS["C14"] = dict(
    level="fault_enumeration",
    level_text=("fault enumeration at the writer boundary: every outcome matrix {ok,error,short}^(destinations x events) for <=3 destinations x <=3 (quick) / "
                "<=4 (thorough) events is scripted into recording fault-injecting destinations (with and without FilteredLevelWriter, plain io.Writer vs "
                "LevelWriter), plus random larger configurations; per-destination call logs and the ErrorHandler log are compared with the model "
                "'first failing destination wins, exactly one handler call per failing event, later events unaffected'. An error comes with 0, all or half of the bytes; a short write accepts len-1, 0, 1 or len/2 bytes; "
                "destinations also sit behind SyncWriter, a nested MultiLevelWriter or both; events are finalized with Msg / Msgf / MsgFunc, carry a "
                "hook-added field in a quarter of the cases and a 600-byte (random cases: also 70 000-byte) field in some; the multi writer is also "
                "reached through its plain Write method (without level filters: what a filter does without a level is not specified)."),
    technique="runtime monitoring with injected writer faults: exhaustive outcome matrices, per-destination and ErrorHandler logs vs model",
    stages=lambda tier: [dict(variant="vh", cmd="c14", shards=16, timeout=3000)],
    rule=("one case = one (destination count, event count, outcome matrix, filter levels, writer kinds, event levels) configuration; all are non-trivial; "
          "distinct by hash of the configuration"),
    assumptions=["a single (non-multi) writer's short write is not an error (the statement surfaces short writes only under MultiLevelWriter)"],
    require=dict(exhaustive_matrix_cases=20000),
)

CHECKS["C15"] = dict(
    level="exploration",
    level_text=("reference-model monitor: the destination's (level, bytes) sequence is compared after every operation with an executable model of "
                "hold/release/pass-through for all histories of WriteLevel/Trigger/Close up to length 5 (quick) / 6 (thorough) over an 8-level alphabet, "
                "all 64 (Conditional, Trigger) pairs on all length-3 histories, random histories over all levels except 10; concurrent runs are checked "
                "with porcupine against the same model (each operation's output = the lines the destination received during that call) plus exactly-once "
                "/ unaltered / level-preserved invariants, a real-time order rule on the destination sequence (a line whose write had returned before another "
                "write was called may only come later if it is holdable and the other is not), conservation of the held lines where the history "
                "allows a verdict (released and never closed: each exactly once; never released: none), and the (n, err) results; half of the concurrent "
                "runs use a destination that yields or sleeps between deliveries; callers overwrite their buffer as soon as a call returns; bodies "
                "reach beyond the pooled 1 KiB buffer and the 64 KiB reuse limit; short-lived TriggerLevelWriters are created, filled, released or "
                "closed next to every concurrent run so that the shared buffer pool changes hands (no line may cross over); also under the race "
                "detector."),
    technique="runtime monitoring: trigger-buffer reference model, porcupine linearizability of concurrent histories, race detector",
    stages=lambda tier: [dict(variant="vh", cmd="c15", shards=16, timeout=3000),
                         dict(variant="vh", cmd="c15-conc", shards=4, timeout=3000),
                         dict(variant="vh-race", cmd="c15-conc", shards=4, timeout=3000, race=True)],
    rule=("one case = one operation history (sequential) or one concurrent run; non-trivial = length >= 2; distinct by history index / destination content hash"),
    assumptions=["the destination never fails; line bodies have no interior newline; level 10 is never used (all excluded by the statement)",
                 "Close discards the held lines (the statement only fixes that they are never written if the trigger never happened)"],
    require=dict(exhaustive_histories=10000, porcupine_ok=100),
)

CHECKS["C07"] = dict(
    level="exploration",
    level_text=("runtime allocation monitor: testing.AllocsPerRun (GC off, pools warmed, non-allocating writer) on every method of the documented "
                "allocation-free set alone and on seeded random chains of 1-12 of them with generated arguments, for six loggers (plain, context, "
                "timestamp hook, both, two level-filtered ones), in both the JSON and the binary_log build; filtered chains must also write nothing."),
    technique="runtime monitoring: allocation counter (testing.AllocsPerRun) as oracle over seeded call chains, both encodings",
    stages=lambda tier: [dict(variant="vh", cmd="c07", shards=8, timeout=3000),
                         dict(variant="vh-bin", cmd="c07", shards=8, timeout=3000)],
    rule=("one case = (logger, chain of method names, finalizer) measured over 300 runs after 50 warm-up runs; every method alone x 6 loggers plus "
          "400 (quick) / 20000 (thorough) random chains per encoding whose estimated encoded size stays below 400 bytes; all non-trivial; distinct by "
          "hash of the chain description"),
    assumptions=["testing.AllocsPerRun's integer average: fewer than one allocation per run on average is not detected",
                 "race detector off (it allocates); GC disabled during measurement so sync.Pool is not drained"],
    replay=replay_index("c07"),
    require=dict(enabled_chains=300, disabled_chains=100),
)


def _c19_prepare(tier, seed, env):
    import subprocess, os, sys
    sys.path.insert(0, os.path.join(env["ROOT"], "lib"))
    import c19gen
    gdir = os.path.join(env["HARNESS"], "cmd", "c19gen")
    n = c19gen.gen(os.path.join(gdir, "main.go"), tier, seed, "default")
    ok = True
    for out, extra in (("c19bin", []), ("c19bin-noinl", ["-gcflags=all=-l"])):
        p = subprocess.run(["go", "build", "-tags", "verif"] + extra + ["-o", os.path.join(env["BUILD"], out), "./cmd/c19gen"],
                           cwd=env["HARNESS"], env=env["GOENV"], capture_output=True, text=True)
        if p.returncode != 0:
            env["log"]("C19 generated program failed to build (%s):\n%s" % (out, (p.stdout + p.stderr)[-3000:]))
            ok = False
    env["log"]("C19: generated %d statements" % n)
    return ok


CHECKS["C19"] = dict(
    level="exploration",
    level_text=("ground-truth monitor: a Go program generated at check time contains one statement per combination of caller mechanism x entry "
                "point x finalizer x hooks x wrapper depth; on the same source line as the call whose position must be reported it records "
                "runtime.Caller, and the caller field of the emitted event is compared with it. Built twice (default inlining and -gcflags=all=-l)."),
    technique="runtime monitoring: generated program compares the emitted caller field with runtime.Caller captured on the same source line",
    prepare=_c19_prepare,
    stages=lambda tier: [dict(variant="c19bin", cmd="c19", shards=4, timeout=1200),
                         dict(variant="c19bin-noinl", cmd="c19", shards=4, timeout=1200)],
    rule=("one case = one generated statement (mechanism in {Event.Caller(k), CallerSkipFrame(k)+Caller, Context.Caller+CallerSkipFrame(k), "
          "CallerWithSkipFrameCount(2+k), global CallerSkipFrameCount=2+k with either} x entry in {Trace..Error, Log, WithLevel, Err, Print/Printf/"
          "Println, Logger.Write, package log functions} x finalizer x {no hooks, hooks before and after} x wrapper depth 0..2 (quick) / 0..4 "
          "(thorough), half of the wrappers //go:noinline); all non-trivial; distinct by statement id"),
    assumptions=["default CallerMarshalFunc (file:line)", "runtime.Caller(1) inside here() is the ground truth for 'the user's line'"],
    require=dict(statements_checked=1000),
)


def _c17_stages(tier):
    common = dict(cmd="c17", shards=16, timeout=3000, crash_is_violation=True, crash_desc="child process died while decoding",
                  confirm=dict(cmd="c17-one", cpu=200))
    return [dict(variant="vh", crash_witness="/verif/build/c17.current.json.{shard}", **common),
            dict(variant="vh-bin", crash_witness="/verif/build/c17.current.bin.{shard}", **common),
            # the decoder's output is a function of its input alone: concurrent decodes of separate streams
            dict(variant="vh", cmd="c17-conc", shards=4, timeout=3000, confirm=dict(cmd="c17-one", cpu=200)),
            dict(variant="vh-race", cmd="c17-conc", shards=4, timeout=3000, race=True, args=["-scale", "0.5"], confirm=dict(cmd="c17-one", cpu=200))]


CHECKS["C17"] = dict(
    level="exploration",
    level_text=("runtime monitor around every decoder entry point (Cbor2JsonManyObjects, DecodeIfBinaryToBytes/String, DecodeObjectToStr; in the "
                "binary build also ConsoleWriter.Write and the journald writer): recover() classifies panics (runtime.Error = violation), the heap "
                "allocation counter bounds memory per call (512*len+256KiB, confirmed with the exact counter), a watchdog bounds time, the input is written "
                "to disk before each call so a process-fatal crash keeps its witness; a third of the inputs are decoded again from a reader that "
                "returns one byte per Read (same output and error/no-error), from a reader that fails half-way and into a destination that fails. "
                "Inputs: all 16 843 008 strings of 1-3 bytes (exhaustive), a header x length-argument (incl. 2^20..2^30, 2^31, 2^63, 2^64-1) x "
                "nesting-prefix grid, the timestamp tag over extreme floats and integers, structure-aware random items, nesting bombs, mutations of "
                "valid streams, and every cut point of valid streams (prefix output and error/no-error compared with the per-event decode); in the "
                "binary build the valid streams also come from the real logger running generated programs (cut at every offset, and mutated)."),
    technique="runtime monitoring: panic/allocation/termination oracles around the decoder over exhaustive short inputs, grids, mutations and all cut points",
    stages=_c17_stages,
    rule=("one case = one input byte string fed to every entry point (or one cut point of a valid stream). distinct_nontrivial counts distinct mutated "
          "streams and cut streams with >= 2 events by content hash; the exhaustive 1-3 byte inputs and the grid are counted in counters "
          "(exhaustive_short_inputs, grid_inputs) - they are distinct by construction"),
    assumptions=["DecodeObjectToStr has no error result and reports malformed input by panicking with an error value: only runtime.Error panics count for it",
                 "journald's Send fails here for lack of a socket after decoding; any return value is accepted",
                 "a shard whose input runs > 20 s (wall clock) only raises a suspicion and stops; the witness is then decoded alone under RLIMIT_CPU = 200 "
                 "CPU-seconds: exhausting that budget is reported as non-termination, finishing within it leaves the suspicion inconclusive"],
    require=dict(decoder_calls=1000000, cut_points=10000),
)

CHECKS["C09"] = dict(
    level="exploration",
    level_text=("runtime monitor under -tags binary_log: every event handed to the writer is parsed by the harness's own RFC 8949 well-formedness "
                "parser (exact consumption, reserved additional information, break placement, chunk types, map parity) and its ordered (text key, "
                "value) pairs are compared with the logged values in the documented representation (integers exact incl. unsigned >= 2^63, floats "
                "bit-exact, tags 1/260/261/262/263/63); the run reports which length / width boundaries were observed."),
    technique="runtime monitoring: independent RFC 8949 parser + documented-representation matcher on writer bytes of the binary build",
    stages=lambda tier: [dict(variant="vh-bin", cmd="c09", shards=16, timeout=3000),
                         dict(variant="vh-bin", cmd="c09-runes", shards=8, timeout=3000),
                         dict(variant="vh-bin", cmd="c09-lengths", shards=4, timeout=3000)],
    rule=("one case = one seeded modelled program (settings x derivation chain x events x nested field calls) run under binary_log; non-trivial = wrote "
          "an event and has a container; distinct by hash of (settings, event bytes)"),
    assumptions=["nil may be encoded as simple value 22 or as embedded JSON null (tag 262), both decode to null",
                 "CBOR text strings carry the logged bytes verbatim (UTF-8 validity of text strings is not required by well-formedness)",
                 "shortest-form (preferred) serialization of arguments is not demanded"],
    replay=replay_index("c09", "vh-bin"),
    require=dict(events_written=1000, strlen_255=1, strlen_256=1, int_arg_65536=1, arrlen_24=1, arrlen_256=1, arrlen_65535=1, arrlen_65536=1, strlen_65536=1),
)

CHECKS["C08"] = dict(
    level="exploration",
    level_text=("differential runtime monitor: the same seeded program list is executed by the JSON build and by the binary_log build (whose output "
                "goes through the bundled decoder); for every event the decoded text must be one valid JSON object line with the same ordered "
                "keys, and each value is compared by the kind that was logged (integers as big numbers, floats by width, times as instants within "
                "1 us, text/[]byte decoded, embedded JSON verbatim, documented text forms)."),
    technique="runtime monitoring: differential execution of JSON and binary builds on one seeded workload, kind-aware value comparison",
    stages=lambda tier: [dict(variant="vh", cmd="c08-emit", shards=16, timeout=3000, phase=0),
                         dict(variant="vh-bin", cmd="c08-emit", shards=16, timeout=3000, phase=0),
                         dict(variant="vh", cmd="c08-compare", shards=16, timeout=3000, phase=1),
                         dict(variant="vh-bin", cmd="c08-runes", shards=8, timeout=3000, phase=1),
                         dict(variant="vh-bin", cmd="c08-lengths", shards=4, timeout=3000, phase=1)],
    rule=("one case = one seeded modelled program restricted to the statement's domain (FloatingPointPrecision -1, 4/16-byte IPs, 6-byte MACs, "
          "canonical prefixes, times in 1970-2100); evaluations also counts recorded events of the two emit phases; non-trivial = an event was "
          "compared and the program has a container; distinct by hash of (settings, JSON-build bytes)"),
    assumptions=["both builds generate the identical program list from the seed (the generator does not depend on the encoding)",
                 "the JSON side of a time value must be the C02 rendering of the logged instant; the decoded binary side must be within 1 us of it"],
    replay=None,
    require=dict(events_compared=1000),
)
del CHECKS["C08"]["replay"]

CHECKS["C16"] = dict(
    level="exploration",
    level_text=("reference-renderer monitor: events emitted by the JSON logger for seeded programs (every value type, nesting, duplicate keys, the empty "
                "key) are rendered by ConsoleWriter under random PartsOrder/PartsExclude/FieldsOrder/FieldsExclude/TimeFormat/TimeLocation/"
                "TimeFieldFormat configurations and compared byte for byte with an independent renderer of the statement (strings verbatim or "
                "strconv.Quote'd, numbers with their exact digits, other values parsed back and compared semantically); (n, err) and determinism of two "
                "renderings are checked too. The event's instant is drawn from 1840-2100 plus edges (epoch, second before it, exact seconds, midnights), "
                "the timestamp / level / message field names are customised in a quarter of the programs each, PartsOrder may be empty (not nil), "
                "PartsExclude has up to three entries, zone-less TimeFieldFormats are used where TimeLocation is UTC, half of the writers are built by "
                "NewConsoleWriter with an option; for events without a standard level (Log(), Write, custom levels) the level part is excluded - its "
                "rendering is not specified - and everything else is still compared."),
    technique="runtime monitoring: independent reference renderer compared with ConsoleWriter output over seeded events x configurations",
    stages=lambda tier: [dict(variant="vh", cmd="c16", shards=16, timeout=3000, env={"TZ": "UTC"}),
                         dict(variant="vh", cmd="c16-runes", shards=8, timeout=3000, env={"TZ": "UTC"})],
    rule=("one case = one seeded program's events x one random console configuration, each event rendered twice; non-trivial = at least one rendering "
          "was compared; distinct by hash of (configuration, console bytes)"),
    assumptions=["field names are drawn from [A-Za-z0-9_.-]* (incl. the empty name) plus two multi-byte letters and never equal a part name",
                 "events carry a timestamp and a standard level; no caller part; FieldsOrder has no duplicates; PartsOrder only names the four standard parts",
                 "the message part is written verbatim, so a message containing a newline yields a multi-line record (not treated as a violation)",
                 "with FieldsOrder set the error field may sit anywhere (unspecified by the statement)"],
    replay=replay_index("c16"),
    require=dict(renderings_checked=1000),
)


def _c06_stages(tier):
    st = [dict(variant="vh", cmd="c06", shards=8, timeout=3000),
          dict(variant="vh-race", cmd="c06", shards=8, timeout=3000, race=True, args=["-scale", "0.5"])]
    if tier == "thorough":
        # AddressSanitizer build as a cheap extra (reports are process-fatal: a dying child is a violation)
        st.append(dict(variant="vh-asan", cmd="c06", shards=4, timeout=3000, args=["-scale", "0.1"], crash_is_violation=True,
                       crash_desc="the AddressSanitizer build of the harness died during concurrent logging"))
    return st


CHECKS["C06"] = dict(
    level="exploration",
    level_text=("runtime monitor + race detector: every (worker, i) call chain is first run alone to obtain its bytes; then G goroutines (4-256) emit "
                "their chains concurrently through a shared logger, children derived concurrently, hooks, a shared BasicSampler and the global "
                "log.Logger, into recording destinations (plain, SyncWriter, MultiLevelWriter, ConsoleWriter.Out, log.Logger) that copy and checksum "
                "their argument on entry and exit around an injected delay (Gosched / sleep / block until another write arrives), look the event up by "
                "its unique id and compare bytes, count deliveries and overlapping calls; a toggler flips the global level and the sampling switch "
                "meanwhile (half of the workers of the unsampled runs log through an admit-all sampler, so that the switch is read on every event). "
                "Entry points WithLevel / Info / Warn / Error / Err, finalizers Msg / Msgf / MsgFunc / Send; children whose context holds Dict, Array, "
                "Fields and Object; SyncWriter over a LevelWriter and over a plain io.Writer; shared samplers are a BasicSampler or a LevelSampler "
                "over BurstSamplers; destination kind, G, GOMAXPROCS and sampler use are decoded from independent digits of the run number. "
                "Run both without and with the Go race detector (which also enables checkptr), GOMAXPROCS in {1,2,16}."),
    technique="runtime monitoring: race detector + recording/checksumming writers with injected delays, exactly-once and byte-identity accounting",
    stages=_c06_stages,
    rule=("one case = one concurrent run (G workers x K events, one destination kind, one GOMAXPROCS value); all non-trivial (G >= 2); distinct by "
          "run parameters. counters.events_delivered_concurrently is the number of writer calls judged."),
    assumptions=["schedule variation changes coverage only: every oracle (byte identity with the sequential run, exactly-once, checksum stability, "
                 "overlap count under SyncWriter, ceil(k/3) under the shared sampler) holds in every schedule of correct code",
                 "data races are reported only if a zerolog frame is in the report; a race confined to harness frames makes the check exit 2"],
    require=dict(events_delivered_concurrently=5000),
)

CHECKS["C18"] = dict(
    level="exploration",
    level_text=("runtime monitor + race detector: R in {1,8,64,128/512} requests with unique attribute values (some attributes absent, IPv6 and port-less "
                "addresses, HTTP/1.0, 1.1 and 2.0, some requests arriving with an id already in their context) are served concurrently through "
                "hlog.NewHandler and a random subset/order of all field handlers (three RequestIDHandler configurations; AccessHandler at a random "
                "position, in a quarter of the rounds a second, nested one) via ServeHTTP on fake ResponseWriters of five capability sets (basic, Flusher, "
                "full, Flusher+ReaderFrom, Flusher+CloseNotifier); every event - those of the final handler and the one logged from the access callback - "
                "must carry only its own request's marker and exactly the expected request fields and values (pre-handlers' fields in all events, "
                "post-handlers' fields in the access event when nested inside it); all places a request id shows up (fields, response headers, "
                "IDFromRequest, a pre-seeded id) must agree and no two requests of a round may share one; the base logger must be unchanged; and every "
                "AccessHandler's (status, size), called exactly once also when the handler panics with http.ErrAbortHandler, must equal what the fake "
                "ResponseWriter recorded for every WriteHeader / Write (full, empty, short, failing) / ReadFrom (also from a failing source) / Flush / "
                "informational-status / panic script up to length 3 (quick) / 4 (thorough), enumerated exhaustively against every capability set across the rounds, random "
                "longer scripts beyond."),
    technique="runtime monitoring: per-request marker isolation + response-script enumeration against recording fake ResponseWriters, race detector",
    stages=lambda tier: [dict(variant="vh", cmd="c18", shards=8, timeout=3000),
                         dict(variant="vh-race", cmd="c18", shards=8, timeout=3000, race=True)],
    rule=("one case = one request (handler chain x capability set x response script); non-trivial = non-empty script or non-empty handler chain; "
          "distinct by hash of (script, capability set, handler order, AccessHandler positions)"),
    assumptions=["requests are driven through ServeHTTP directly (no sockets); Flush alone is not treated as sending a status",
                 "Tee is not reachable through hlog's public API and is not exercised",
                 "the order of the fields inside an event is not judged here (C03 owns layout)"],
    require=dict(requests_served=2000, requests_aborted_by_panic=100, rounds_with_request_ids_compared=20),
)

CHECKS["C05"] = dict(
    level="exploration",
    level_text=("runtime monitor over seeded derivation trees (With with 500-byte-straddling fields, With+UpdateContext, Level, Sample, Hook, Output, "
                "With().Ctx, With().Stack; 6-20 nodes quick, up to 46 thorough) in three creation/use orders (all first; interleaved; re-log the whole "
                "ancestor chain and the siblings after every derivation): every event of every node is compared with the model of that node's own "
                "path (fields, hooks, level, stack flag, destination) and every GetCtx value read by hooks and by object marshalers (on the event, "
                "inside Arr().Object, inside Dict().Object, through Fields, Func, EmbedObject, Interface, a LogArrayMarshaler and Errs) with the "
                "context given to that logger/event or background; every Sample step installs a counting sampler with an identity (one in six "
                "rejects): starting an event must consult exactly the sampler of the node's own path, once, iff the level gate passed; Output goes to "
                "LevelWriters and plain io.Writers and the level handed to WriteLevel is compared; batches of events are kept "
                "open and finalized in permuted order so that pooled events change hands; one tree in ten is also exercised by one goroutine per "
                "node while With / Hook / Level / Output children are derived from the shared nodes concurrently - the nodes' and the children's "
                "events and the samplers' consultation counts are judged - and the whole check is repeated under the race detector."),
    technique="runtime monitoring: per-node derivation-path model compared with every emitted event, GetCtx probes, race detector",
    stages=lambda tier: [dict(variant="vh", cmd="c05", shards=16, timeout=3000),
                         dict(variant="vh-race", cmd="c05", shards=16, timeout=3000, race=True, args=["-scale", "0.1"])],
    rule=("one case = one derivation tree with all its logging rounds; non-trivial = at least 4 nodes; distinct by tree index x seed (trees are "
          "generated from distinct PRNG streams); counters.events_checked is the number of events judged"),
    assumptions=["UpdateContext is applied only to a logger just produced by With() (as the statement requires)",
                 "a Dict()/Arr().Object() event has no Go context of its own, so background is the specified GetCtx value there"],
    replay=replay_index("c05"),
    require=dict(events_checked=10000, step_Output=50, step_Sample=50, concurrent_events_checked=500),
)


def _diode_stages(cmd):
    def f(tier):
        st = [dict(variant="vh", cmd=cmd, shards=16, timeout=3400),
              dict(variant="vh-race", cmd=cmd, shards=8, timeout=3400, race=True)]
        if tier == "thorough" and cmd == "c10":
            st.append(dict(variant="vh-asan", cmd=cmd, shards=4, timeout=3400, args=["-scale", "0.05"], crash_is_violation=True,
                           crash_desc="the AddressSanitizer build of the harness died while exercising the diode"))
        return st
    return f


_DIODE_COMMON = ("seeded noisy runs (P 1-4/8 producers x 1-6 writes, ring size in {1,2,3,4,8}, or up to 50 writes each on rings of 16 and 100; GOMAXPROCS 1, 2 or all; "
                 "a nil alerter, an alerter that logs through the same diode, a wrapped writer that refuses or half-accepts some messages; waiter and poller mode, payloads crossing the 500 B and 64 KiB "
                 "pool thresholds, Gosched/sleep noise injected at the verif-tagged hook points before/after every atomic, mutex/cond and context "
                 "operation of diode/internal/diodes), a systematic sweep pausing the k-th arrival (k<=3) at every hook point until the other side made a "
                 "step (Close at quiescence and Close at once), every consumer-side point held until all producers returned so that whole laps pass, "
                 "and directed scenarios (drain race, Write+Close between the cancellation check and TryNext, lost-CAS hole, first-lap overtake, "
                 "two producers one lap apart racing for one slot in both orders, Close of an unused diode, ...); under the race detector half of the noisy runs are executed with the hook silent so that the hook's own "
                 "mutex adds no happens-before edges. Evidence reports distinct hook-event interleavings and how often each named window occurred.")

CHECKS["C10"] = dict(
    level="exploration",
    level_text=("runtime monitor over recorded histories: " + _DIODE_COMMON + " Oracles: every Write returns while the wrapped writer is blocked "
                "(join, else goroutine-state oracle); each delivered buffer is byte-identical (crc + length) to exactly one Write argument, unchanged "
                "during the wrapped Write, never delivered twice, one delivery in flight at a time; the delivery order is checked exactly against the "
                "lossy-FIFO specification via the interval-order criterion, with porcupine as a second opinion on histories of <= 20 operations; "
                "sum(alerts) <= ring positions claimed and distinct deliveries + sum(alerts) <= positions claimed; a producer that makes more attempts inside "
                "one Write than all other parties could have caused (hook counter) is spinning = blocked; Writes issued while Close runs and after it "
                "returned must return too (no park, no spin, no panic); race detector."),
    technique="runtime monitoring: hook-injected noise/pauses, recorded call/return and delivery histories, interval-order linearizability test + porcupine, race detector",
    stages=_diode_stages("c10"),
    rule=("one case = one diode run; non-trivial = more than one producer or at least one named window observed; distinct_nontrivial = distinct "
          "hashes of the (point) event sequence of the run"),
    assumptions=["exhaustive enumeration of schedules at atomic-operation granularity is NOT delivered (that is model checking); reach comes from seeded "
                 "noise, the single-pause sweep, real parallelism and the race detector",
                 "which messages are dropped when the ring is lapped is not constrained"],
    require=dict(noisy_runs=500, hook_events=10000, runs_with_window_cas_lost=20, runs_with_window_collision_with_newer_bucket=20, runs_with_window_lap_alert=50,
                 runs_with_writes_during_and_after_close=20, runs_lapping_with_nil_alerter=5, runs_where_the_alerter_wrote_to_the_diode=10, consumer_points_held_across_laps=50),
)

CHECKS["C11"] = dict(
    level="exploration",
    level_text=("conservation monitor over the same kind of runs: " + _DIODE_COMMON + " After every Write and Close returned: messages whose Write "
                "returned before Close was called and that were not delivered must be covered by the alerter's counts; delivered + reported == written "
                "whenever the number of claimed ring positions equals the number of Writes; no drop at all while fewer than ring-size messages were "
                "outstanding on the logical clock; per position (replayed from the hook trace): every stored ring position was taken by the consumer or "
                "lies in a range it skipped with an alert, so a loss cannot hide behind alerts for abandoned positions; only deliveries that entered "
                "the wrapped writer before Close returned count, and none may come after the wrapped writer's own Close; directed drain-race / lost-CAS "
                "hole / first-lap overtake scenarios in both modes; the Fatal path is observed in child processes (waiter and poller mode, Msg / Msgf / "
                "Send / MsgFunc, eleven writer wrappings, with and without other goroutines logging)."),
    technique="runtime monitoring: conservation accounting (written = delivered + reported) over hook-instrumented noisy/directed runs, child-process Fatal path",
    stages=_diode_stages("c11"),
    rule=("one case = one diode run (Close is called right after the producers return in half of the noisy runs); non-trivial as for C10; "
          "distinct_nontrivial = distinct event-sequence hashes"),
    assumptions=["same reach limits as C10", "reported counts may exceed the number of lost messages when positions were retried (the statement allows >=)"],
    require=dict(noisy_runs=500, runs_without_retry=100, runs_below_capacity=50, fatal_path_cases=20, runs_where_wrapped_close_was_called=500, consumer_points_held_across_laps=50),
)

CHECKS["C12"] = dict(
    level="exploration",
    level_text=("bounded-progress monitor with a stuck-state oracle: " + _DIODE_COMMON + " After all Writes returned and with no further Write or "
                "Close, either the consumer passes the last claimed ring position, or a stable blocked state is observed: the consumer goroutine parked "
                "in sync.Cond.Wait (from runtime.Stack), or >= 1000 empty polling steps without progress in poller mode, while claimed positions remain "
                "- that is the violation; the same quiescence verdict is taken in the middle of paced single-producer runs (a later Write must not be needed); a consumer parked "
                "in any other primitive with work pending is confirmed by a second look with no hook event in between. Close must return, also when "
                "called twice or from two goroutines (else: Close parked on done with the consumer parked outside the harness's own frames, or the "
                "consumer counted calling TryNext far more often after cancellation than positions were ever claimed). Wall-clock limits only produce "
                "'inconclusive'. (The lost wake-up of the original condition-variable Waiter was first a known finding and is now repaired by fix 5e93c03; "
                "its signature is no longer suppressed.)"),
    technique="runtime monitoring: goroutine wait-state oracle + hook counters for bounded progress, directed lost-wake-up / cancel / hole scenarios",
    stages=_diode_stages("c12"),
    rule=("one case = one diode run judged at quiescence and again at Close; non-trivial as for C10; distinct_nontrivial = distinct event-sequence hashes"),
    assumptions=["'eventually delivered' is restated as: after quiescence the consumer reaches every claimed position or is observed in a state only a new "
                 "event could end", "same reach limits as C10"],
    require=dict(noisy_runs=500, runs_reaching_quiescence_with_full_progress=300, directed_windows_reached=5, runs_closing_twice=50, consumer_points_held_across_laps=50),
)

# ---- additions after seed round 7 (appended to the descriptions above) -----------------------------------------
_ADD = {
    "C01": " A quarter of the cases run after a pool history (see C02); UpdateContext steps are accompanied by a copy of the logger taken "
           "before the update and updated afterwards (its field must never show).",
    "C02": " Address-length sweep (MAC and IP values of 0..300 bytes in their text forms) and instant sweep (year 1..9999, binary-exact fractions, two zones)." " RawCBOR is part of the length sweep (data URL of the standard base64 text)." " Nesting-depth sweep 0..300 (dictionaries in dictionaries, a chain of object marshalers in a context array)." " Exhaustive sweeps: every Unicode code point (1 114 112, surrogates also as raw bytes) as key, text, bytes, slice / array / dict / "
           "context member and message; every length 0..1100 and around 2^16 for keys, text, bytes, hex, messages and typed slices; every "
           "prefix length of both address families - each read back with the harness's parser and encoding/json."
           " Half of the cases run after a pool history: filtered, discarded and unfinished events that were handed arrays, dictionaries and "
           "objects of their own.",
    "C04": " Half of the sampled loggers of the grid are derived further (Output, With, Level, Hook) before use." " Loggers derived under one global level are used under another (the level counts when the event is logged); GetLevel returns "
           "what Level was given." " WithLevel(Panic/Fatal), Info and Log are also called right after a Panic() event that was written, discarded by the caller or by a hook, "
           "sampled out or filtered (and recovered from). During the inertness sweep the package-level callbacks (TimestampFunc, the error / stack / interface / caller / level marshal "
           "functions) are replaced by counting ones.",
    "C06": " Destination kind 10: ConsoleWriter over a diode writer." " Events that are discarded outside any hook and finalized all the same (directly, inside Func) precede a share of the chains." " Some workers fetch the base logger from a shared context for every event while a goroutine attaches disabled loggers to that context."
           " An error-stack marshaler is installed; one worker kind logs With().Stack(), a third of the chains record errors inside nested "
           "dictionaries, objects and arrays." " Destination kind 9: half of the workers reach a SyncWriter-wrapped destination through SyncWriter(SyncWriter(dest))."
           " Next to the console destinations another goroutine logs through a ConsoleWriter whose destination refuses or truncates every line."
           " Some chains start with Logger.Panic() (recovered): the event carries a completion callback while other goroutines take events "
           "from the same pool.",
    "C08": " Instant sweep year 1..9999 with binary-exact fractions: the decoded instant is the logged one at any distance from 1970." " The same code-point, length, nesting-depth and prefix-length sweeps as C02 run in the binary build through the bundled decoder."
           " The settings include caller-supplied InterfaceMarshalFunc values (wrapping, always failing): whatever they render, both builds "
           "must show the same.",
    "C14": " Every logging call runs in its own goroutine: a call parked on a lock inside zerolog on three consecutive looks is reported (logging-call-never-returns)." " The package's ConsoleWriter as a fan-out destination (five shapes, healthy and failing neighbour): nothing spurious is reported, a neighbour's error is." " Half of the scripted errors are net.Error values with Timeout() and Temporary() true." " A third of the multi-destination cases use a shared-base fan-out (Multi(Multi(Multi(w0,w1),w2..), last) with two more writers "
           "extending the same base: their destinations must receive nothing)." " A fifth of the cases reach the destinations through a logger derived with Output(root); a third of the events carry nested "
           "dictionaries and an array of dictionaries (several pooled objects at once, also right after a failed write)."
           " Panic-level events start with Logger.Panic() (recovered) in half of the cases.",
    "C15": " Some bodies end in CR LF or consist of CR LF only.",
    "C17": " Well-formed events whose level / time / message / error / caller / stack members hold every kind of value are fed to every consumer (ConsoleWriter, journald)." " Six streams whose event boundaries fall on (and next to) multiples of the decoder's 4096-byte read buffer are cut at every offset."
           " In the binary build every strict prefix of a single event is also handed to ConsoleWriter.Write, which must return an error."
           " G goroutines (2-16, GOMAXPROCS 1/2/16) decode their own valid or truncated streams at the same time through all entry points, also into "
           "a destination that yields inside Write: every result must equal the same decode done alone (also under the race detector)."
           " Text contents are also enumerated from 18 units (ASCII needing escapes, well-formed multi-byte runes incl. U+FFFD, truncated / "
           "overlong / surrogate / out-of-range sequences) up to three units, in six positions. A shard whose input runs for 20 s stops with "
           "a suspicion; the witness is decoded alone under RLIMIT_CPU (200 CPU-seconds) and reported as non-termination if it uses them up.",
    "C18": " Every fifth request uses a standard method (HEAD, GET, POST, OPTIONS, CONNECT, PUT)." " Request targets include absolute-form URLs (with and without path, userinfo, port) and escaped paths." " In a third of the rounds every request context derives from one shared context that already carries a logger (BaseContext); that "
           "logger must be unchanged afterwards." " Remote addresses include bare IPv6 literals without port.",
    "C03": " Msgf finalizers are also written without operands, with text that means something to fmt (escaped / dangling percent signs, verbs "
           "without operands); the slice handed to Hook(...) is overwritten by the caller afterwards.",
    "C05": " With().Ctx(nil) steps clear the path's Go context." " Built-in hooks added through the Context (Timestamp, a caller hook beyond the stack) are derivation steps of the model; a quarter of "
           "the trees have a directed branch Hook, Hook, With().Timestamp(), then three siblings adding different built-in hooks."
           " The slice handed to Hook(...) is overwritten by the caller right after the call.",
    "C12": " Poll intervals of 1..9 ns; a consumer that is runnable or running inside the poller for 400 consecutive looks without a poll or delivery while work is pending is reported (consumer-spins-without-polling)." " When Close has returned, messages not delivered must be covered by what the alerter was told (not only by positions the consumer "
           "skipped)." " One run in eight contains a zero-length message (Write(nil) / Write([]byte{})).",
    "C10": " A payload mode with total lengths of exactly 500 / 512 / 576 bytes (the capacities of pooled buffers) and one byte off, followed by short payloads." " One run in eight contains a zero-length message.",
    "C07": " Type is also given value-typed variables (boxed at the call)." " TimestampFunc steps 1.5 s per reading and rotates over three zones." " Long typed slices: 15 slice kinds x 100..5600 elements (encoded size <= 56 000 bytes) must be allocation-free once the pooled buffer has grown.",
    "C09": " Address-length sweep (tag 260 around 0..300 bytes) and instant sweep (tag 1 around the exact seconds)." " Exhaustive sweeps read with the independent parser: every code point (text strings carry the logged bytes verbatim, byte strings "
           "the logged bytes) and every length 0..1100 and around 2^16 for keys, text, bytes, hex (tag 263), messages and typed slices.",
    "C11": " Fatal children whose own fatal event is suppressed (disabled level, global level, zero sampler, discarding hook) must still deliver what was written before."
           " Fatal children also put a ConsoleWriter (value, pointer, inside a MultiLevelWriter, from NewConsoleWriter via Output) in front of the diode."
           " One run in eight contains a zero-length message; in a quarter of the runs two goroutines call Close at once (whichever returns "
           "first, the backlog has been delivered or reported); one run in sixteen writes nothing at all.",
    "C13": " A third of the random Burst histories install another TimestampFunc half-way (shifted clock)." " Events also start with Logger.Panic() (recovered) and WithLevel(Fatal/Panic)."
           " A quarter of the Logger runs derive their loggers (Sample, With, Output) while sampling is globally disabled and re-enable it before logging.",
    "C16": " A third of the constructor-made writers are built with another configuration and reconfigured afterwards through their exported fields."
           " Every Unicode code point is rendered inside a field name, a field value, a slice, a dictionary, an error text and the message "
           "(1 114 112 events from the real logger, compared with the reference renderer)." " One program in eight has events with dozens of fields (FieldsOrder over more than 16 names)." " Before a fifth of the renderings another ConsoleWriter edits, in place, the PartsOrder its constructor gave it.",
    "C19": " Explicit Caller(j) under a raised global skip count." " Paths with a second caller hook: every caller member of the event names the user's site." " Loggers built with CallerWithSkipFrameCount(n) while the global count equals n are used under another global count."
           " Logger.Write is also called with empty, nil, newline-only and newline-less payloads." " Helper chains 5 to 1000 frames deep report their caller with one CallerSkipFrame(N+2) or N+2 calls of CallerSkipFrame(1)."
           " Every third statement runs after a pool history: events discarded (by the caller or a hook), filtered, panicking or written "
           "elsewhere, with skip counts of their own.",
}
for _k, _v in _ADD.items():
    if _k in CHECKS:
        CHECKS[_k]["level_text"] += _v
CHECKS["C19"]["require"]["statements_after_pool_history"] = 300
CHECKS["C02"].setdefault("require", {})["cases_after_pool_history"] = 1000
CHECKS["C06"].setdefault("require", {})["panic_entry_events"] = 100
CHECKS["C17"]["require"]["text_grid_inputs"] = 10000
CHECKS["C17"]["require"]["concurrent_decodes"] = 1000
CHECKS["C12"]["require"]["runs_with_zero_length_message"] = 50
CHECKS["C13"].setdefault("require", {})["loggers_derived_while_sampling_disabled"] = 100
CHECKS["C02"]["require"]["code_points_logged"] = 1114112
CHECKS["C08"].setdefault("require", {})["code_points_logged"] = 1114112
CHECKS["C18"].setdefault("require", {})["rounds_with_a_logger_in_the_base_context"] = 20
CHECKS["C09"]["require"]["code_points_logged"] = 1114112
CHECKS["C16"].setdefault("require", {})["code_points_rendered"] = 1114112
CHECKS["C07"]["require"]["long_slice_events_measured"] = 60
CHECKS["C14"].setdefault("require", {})["cases_with_a_shared_base_fan_out"] = 1000
CHECKS["C05"]["require"]["directed_builtin_hook_branches"] = 100
CHECKS["C11"]["require"]["fatal_path_cases_with_suppressed_fatal_event"] = 32
CHECKS["C17"]["require"]["buffer_aligned_streams"] = 6
CHECKS["C08"]["require"]["nesting_depths_logged"] = 301
CHECKS["C14"]["require"]["console_destination_cases"] = 20
CHECKS["C13"]["require"]["burst_histories_with_replaced_clock_function"] = 1000
CHECKS["C19"]["require"]["events_with_several_caller_members"] = 50
CHECKS["C17"]["require"]["consumer_key_inputs"] = 100
CHECKS["C09"]["require"]["address_lengths_logged"] = 301
CHECKS["C08"]["require"]["far_instants_logged"] = 160
