"""Per-property check specifications used by run.py."""

CHECKS = {}


def replay_index(cmd, variant="vh"):
    def f(rp):
        if "index" not in rp:
            return None
        return dict(variant=variant, argv=[cmd, "-seed", str(rp.get("seed", 1)), "-tier", rp.get("tier", "quick"), "-replay", str(rp["index"])])
    return f


CHECKS["C01"] = dict(
    level="exploration",
    level_text=("runtime monitor: every byte sequence handed to the writer by ~60k (quick) / ~3M (thorough) seeded programs is judged by an "
                "independent strict RFC 8259 validator; exhaustive over all strings of <=2 (quick) / <=3 (thorough) class-alphabet pieces "
                "in every string-carrying position. Held on the executions produced, not a proof."),
    technique="runtime monitoring: independent JSON validator as oracle on writer bytes over a seeded structure-aware workload",
    stages=lambda tier: [dict(variant="vh", cmd="c01", shards=16, timeout=3000)],
    rule=("cases = all class-alphabet strings up to length L (L=2 quick, 3 thorough; 31 pieces covering every escape/UTF-8/"
          "structural class) each driven through every string-carrying call and front-end, plus seeded random programs "
          "(random global settings x logger derivation chain x events x nested field calls). A case is non-trivial if it "
          "wrote at least one event and has a container (Dict/Array/Object/EmbedObject/Fields) or a byte outside plain "
          "ASCII; distinct = distinct hash of (settings, bytes of every event written)."),
    assumptions=["the harness's own RFC 8259 validator (harness/jsonv) is the judge of well-formedness",
                 "RawJSON arguments and custom marshal outputs generated are valid JSON; time layouts contain no quote/backslash/control",
                 "a panic escaping a logging call is reported as a violation of C01 (no event reached the writer)"],
    replay=replay_index("c01"),
    require=dict(events_written=1000),
)
