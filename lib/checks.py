"""Per-property check specifications used by run.py."""

CHECKS = {}


def replay_index(cmd, variant="vh"):
    def f(rp):
        if "index" not in rp:
            return None
        return dict(variant=variant, argv=[cmd, "-seed", str(rp.get("seed", 1)), "-tier", rp.get("tier", "quick"), "-replay", str(rp["index"])])
    return f


CHECKS["C01"] = dict(
    level="exploration",
    level_text=("runtime monitor: every byte sequence handed to the writer by ~60k (quick) / ~3M (thorough) seeded programs is judged by an "
                "independent strict RFC 8259 validator; exhaustive over all strings of <=2 (quick) / <=3 (thorough) class-alphabet pieces "
                "in every string-carrying position. Held on the executions produced, not a proof."),
    technique="runtime monitoring: independent JSON validator as oracle on writer bytes over a seeded structure-aware workload",
    stages=lambda tier: [dict(variant="vh", cmd="c01", shards=16, timeout=3000)],
    rule=("cases = all class-alphabet strings up to length L (L=2 quick, 3 thorough; 31 pieces covering every escape/UTF-8/"
          "structural class) each driven through every string-carrying call and front-end, plus seeded random programs "
          "(random global settings x logger derivation chain x events x nested field calls). A case is non-trivial if it "
          "wrote at least one event and has a container (Dict/Array/Object/EmbedObject/Fields) or a byte outside plain "
          "ASCII; distinct = distinct hash of (settings, bytes of every event written)."),
    assumptions=["the harness's own RFC 8259 validator (harness/jsonv) is the judge of well-formedness",
                 "RawJSON arguments and custom marshal outputs generated are valid JSON; time layouts contain no quote/backslash/control",
                 "a panic escaping a logging call is reported as a violation of C01 (no event reached the writer)"],
    replay=replay_index("c01"),
    require=dict(events_written=1000),
)

CHECKS["C02"] = dict(
    level="exploration",
    level_text=("runtime monitor with a reference encoder as oracle: every emitted event is re-read with the harness's own tokenizer and each "
                "field compared with the value that was logged (text after U+FFFD mapping, integers via big.Int text, floats bit-exact and "
                "equal to encoding/json's text, times/durations per the globals, documented text forms); the same (kind,value) is logged through "
                "every entry point and the raw value bytes must be identical. Thorough tier is exhaustive over all 2^32 float32 patterns."),
    technique="runtime monitoring: reference-encoder oracle + metamorphic entry-point comparison over seeded/exhaustive value spaces",
    stages=lambda tier: [dict(variant="vh", cmd="c02", shards=16, timeout=3000),
                         dict(variant="vh", cmd="c02-floats", shards=16, timeout=3000)],
    rule=("cases = (a) class-alphabet strings up to length L through every string-carrying call/front-end, (b) one metamorphic program per "
          "(scalar kind, generated value, random time/duration/precision/error-marshal settings) logging the value through Event, Context, "
          "Dict, Object, Func, Array, Fields(map/slice/pointer) and the slice variant, (c) float32 bit patterns (stride 1021 quick, all 2^32 "
          "thorough) and random/boundary float64 patterns. distinct_nontrivial counts distinct (settings, event bytes) hashes of (a)+(b) only; "
          "float patterns are counted in counters.float32_patterns / float64_patterns (each pattern is distinct by construction)."),
    assumptions=["reference renderings come from strconv / encoding/json / time / net of the Go toolchain, not from zerolog",
                 "ErrorMarshalFunc variants used are idempotent (Event.Errs applies the function twice; not regulated by the statement)",
                 "pre-1970 instants under UNIXMS/UNIXMICRO may be truncated or floored (the statement does not say which)"],
    replay=replay_index("c02"),
    require=dict(float32_patterns=100000, occurrences_compared=10000),
)

CHECKS["C03"] = dict(
    level="exploration",
    level_text=("runtime monitor: for seeded random derivation chains (With/Reset/Timestamp/Stack/Ctx/UpdateContext/Hook/Level/Output/Sample) "
                "every emitted object's ordered member list and values are compared with a model computed from the program alone, and each "
                "recording hook's invocation log with the specified (id, level, message) sequence."),
    technique="runtime monitoring: layout/hook-order reference model checked against every emitted event and recorded hook log",
    stages=lambda tier: [dict(variant="vh", cmd="c03", shards=16, timeout=3000)],
    rule=("cases = seeded random programs with unique keys: chain of <=6 (quick) / <=12 (thorough) derivation steps, hook lists mixing "
          "add/discard/GetCtx/noop/LevelHook/HookFunc/Timestamp hooks, 1-4 events with <=6 nested field calls, all finalizers. non-trivial = "
          "wrote an event, chain length >= 2 and at least one hook attached; distinct by hash of (settings, event bytes)."),
    assumptions=["after a discarding hook the level handed to later hooks is not regulated (only that they run once and the event is not written)",
                 "hooks only add plain scalar fields (no Err, whose rendering depends on the running event's stack flag)"],
    replay=replay_index("c03"),
    require=dict(events_written=1000, hooks_attached=500, discard_hooks=20),
)
