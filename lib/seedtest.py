#!/usr/bin/env python3
"""Apply a breaking patch to /repo, run the given checks' quick (or thorough) tier, undo the patch.

  seedtest.py <patch.diff> <Cxx>[,<Cyy>...] [quick|thorough] [--seed N]

Prints one line per check: DETECTED / MISSED (+ the first VIOLATION lines), and leaves /repo clean.
Also verifies that the patch compiles (both encodings) and that the pinned baseline still passes
with it when --baseline is given."""
import os, subprocess, sys, json, time

REPO = "/repo"
ENV = dict(os.environ, GOFLAGS="-mod=mod", GOPROXY="off", GOSUMDB="off", GOTOOLCHAIN="local")


def sh(cmd, **kw):
    return subprocess.run(cmd, shell=isinstance(cmd, str), capture_output=True, text=True, errors="replace", env=ENV, **kw)


def main():
    args = [a for a in sys.argv[1:] if not a.startswith("--")]
    opts = [a for a in sys.argv[1:] if a.startswith("--")]
    patch, checks = args[0], args[1].split(",")
    tier = args[2] if len(args) > 2 else "quick"
    seed = "1"
    for o in opts:
        if o.startswith("--seed="):
            seed = o.split("=")[1]
    st = sh(["git", "-C", REPO, "status", "--porcelain", "--untracked-files=no"]).stdout.strip()
    if st:
        print("REFUSING: /repo has uncommitted changes:\n" + st)
        return 2
    p = sh(["git", "-C", REPO, "apply", "--whitespace=nowarn", patch])
    if p.returncode != 0:
        print("PATCH-DOES-NOT-APPLY", p.stderr[:500])
        return 2
    results = {}
    try:
        b1 = sh("go build ./... && go build -tags binary_log ./... && go build -tags verif ./...", cwd=REPO)
        if b1.returncode != 0:
            print("PATCH-DOES-NOT-COMPILE", (b1.stdout + b1.stderr)[:800])
            return 2
        if "--baseline" in opts:
            b = sh(["python3", "/verif/lib/baseline.py"])
            print("baseline with patch:", b.stdout.strip().splitlines()[0] if b.stdout else b.stderr[:200], "rc=%d" % b.returncode)
            results["baseline_rc"] = b.returncode
        for c in checks:
            t0 = time.time()
            # the evidence file belongs to runs on the unchanged tree: keep it aside while a patched tree is checked
            evp = "/verif/evidence/%s.json" % c
            saved = open(evp).read() if os.path.exists(evp) else None
            r = subprocess.run(["python3", "/verif/run.py", c, tier], capture_output=True, text=True, env=dict(os.environ, VERIF_SEED=seed), cwd="/verif")
            viol = [l for l in r.stdout.splitlines() if l.startswith("VIOLATION") or l.startswith("  signature") or l.startswith("ERROR") or l.startswith("INCONCLUSIVE")]
            if saved is not None:
                open(evp, "w").write(saved)
            verdict = "DETECTED" if r.returncode == 1 else ("MISSED" if r.returncode == 0 else "OTHER(rc=%d)" % r.returncode)
            results[c] = dict(verdict=verdict, rc=r.returncode, wall=round(time.time() - t0, 1), lines=viol[:8])
            print("%s %s %s (%.0fs)" % (c, tier, verdict, time.time() - t0))
            for l in viol[:6]:
                print("    " + l[:400])
            if r.returncode not in (0, 1):
                print(r.stdout[-1500:])
    finally:
        sh(["git", "-C", REPO, "checkout", "--", "."])
        st = sh(["git", "-C", REPO, "status", "--porcelain", "--untracked-files=no"]).stdout.strip()
        if st:
            print("WARNING: /repo not clean after undo:\n" + st)
    print("RESULT " + json.dumps(results))
    return 0


if __name__ == "__main__":
    sys.exit(main())
