#!/usr/bin/env python3
"""Re-run every kept seeded change (/verif/seeded/*/patch.diff) against its property's check and
record the latest verdict in its meta.json (the first verdict is kept under history)."""
import glob, json, os, re, subprocess, sys, time
tier = sys.argv[1] if len(sys.argv) > 1 else "quick"
only = sys.argv[2:] 
rows = []
for d in sorted(glob.glob("/verif/seeded/*")):
    mp = os.path.join(d, "meta.json")
    if not os.path.exists(mp):
        continue
    m = json.load(open(mp))
    if only and m["id"] not in only:
        continue
    checks = ",".join(m.get("run_checks") or [m["property"]])
    p = subprocess.run(["python3", "/verif/lib/seedtest.py", os.path.join(d, "patch.diff"), checks, tier], capture_output=True, text=True)
    r = re.search(r"^RESULT (.*)$", p.stdout, re.M)
    res = json.loads(r.group(1)) if r else {}
    first = m.get("checks")
    m.setdefault("history_runs", []).append(dict(when=time.strftime("%Y-%m-%d %H:%M"), tier=tier, result={k: v["verdict"] for k, v in res.items()}))
    m["checks_latest"] = res
    json.dump(m, open(mp, "w"), indent=1)
    rows.append((m["id"], {k: v["verdict"] for k, v in res.items()}))
    print(m["id"], {k: v["verdict"] for k, v in res.items()}, flush=True)
