#!/usr/bin/env python3
"""Regenerate MANIFEST.json's checks / not_applicable lists from lib/checks.py (single source of truth)."""
import json, os, sys
ROOT = os.path.dirname(os.path.dirname(os.path.abspath(__file__)))
sys.path.insert(0, os.path.join(ROOT, "lib"))
import checks
man = json.load(open(os.path.join(ROOT, "MANIFEST.json")))
props = [json.loads(l)["id"] for l in open(os.path.join(ROOT, "properties.jsonl"))]
man["checks"] = []
man["not_applicable"] = []
served = []
for pid in props:
    c = checks.CHECKS.get(pid)
    if c is None or c.get("disabled"):
        man["not_applicable"].append(dict(property_id=pid, reason=(c or {}).get("na_reason", "check not built yet in this session; see DESIGN.md for the planned monitor")))
        continue
    served.append(pid)
    man["checks"].append(dict(
        property_id=pid,
        quick_cmd="python3 run.py %s quick" % pid,
        thorough_cmd="python3 run.py %s thorough" % pid,
        evidence_file="/verif/evidence/%s.json" % pid,
        replay_cmd_template="python3 run.py replay %s {path}" % pid,
        engine="vh",
        level_claimed=dict(category=c["level"], text=c["level_text"], design_ref=c.get("design_ref", "DESIGN.md section 6 " + pid)),
        level_note="; ".join(c["assumptions"]),
        technique=c["technique"],
    ))
man["engines"][0]["serves_properties"] = served
json.dump(man, open(os.path.join(ROOT, "MANIFEST.json"), "w"), indent=1)
print("manifest: %d checks, %d not_applicable" % (len(man["checks"]), len(man["not_applicable"])))
